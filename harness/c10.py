"""C10 - the import hook only adds decorators: everything else in the module is untouched.

Level: translation validation. The specification (JtHookAst.Transform) states which differences
are permitted; for every program (corpus file or module rendered from a TLC-enumerated skeleton)
(i)  TLC checks Transform(skeleton(original)) = skeleton(transformed)            (Rows_JtHookAst)
(ii) the transformed tree with the added import and decorators removed must be identical to the
     original including every lineno / col_offset / end_* attribute                 (ast.dump)
(iii) the transformed tree must compile; (iv) generated modules: __doc__ and __future__ flags
     survive and co_firstlineno of every function is unchanged (class bodies excepted, see below)."""
import ast
import glob
import json
import os
import random
import sys
import sysconfig
from concurrent.futures import ProcessPoolExecutor

from . import tlc
from .common import Check, MachineryFailure, validate_rows

DEFS = (ast.FunctionDef, ast.AsyncFunctionDef, ast.ClassDef)


def is_jt(dec):
    return (isinstance(dec, ast.Call) and isinstance(dec.func, ast.Attribute) and dec.func.attr == "jaxtyped"
            and isinstance(dec.func.value, ast.Name) and dec.func.value.id == "jaxtyping" and len(dec.keywords) == 1
            and dec.keywords[0].arg == "typechecker" and "Typechecker" in ast.dump(dec.keywords[0].value))


def forest(node, mark):
    """def / async def / class nodes reachable without passing through another one, in source order"""
    out = []
    for ch in ast.iter_child_nodes(node):
        if isinstance(ch, DEFS):
            k = "def" if isinstance(ch, ast.FunctionDef) else "adef" if isinstance(ch, ast.AsyncFunctionDef) else "class"
            out.append({"k": k, "decs": [("J" if (mark and is_jt(d)) else "U") for d in ch.decorator_list], "c": forest(ch, mark)})
        else:
            out += forest(ch, mark)
    return out


def prologue(tree):
    pro = []
    for st in tree.body:
        if isinstance(st, ast.ImportFrom) and st.module == "__future__":
            pro.append("future")
        elif isinstance(st, ast.Expr) and isinstance(st.value, ast.Constant):
            pro.append("cexpr")
        else:
            pro.append("other")
    return pro


def validate_source(src, path, transformer_factory):
    """returns (row, problems)"""
    orig = ast.parse(src, path)
    tree = ast.parse(src, path)
    tr = transformer_factory()
    out = tr.visit(tree)
    if out is not None:
        tree = out
    ast.fix_missing_locations(tree)
    problems = []
    # where was the import inserted?
    pro = prologue(orig)
    at = 0
    for i, st in enumerate(tree.body):
        if (isinstance(st, ast.Import) and len(st.names) == 1 and st.names[0].name == "jaxtyping" and st.names[0].asname is None
                and (i >= len(orig.body) or ast.dump(orig.body[i]) != ast.dump(st) or len(tree.body) == len(orig.body) + 1)
                and len(tree.body) == len(orig.body) + 1 and at == 0):
            # candidate: the statement that makes the transformed body one longer
            rest = tree.body[:i] + tree.body[i + 1:]
            if [ast.dump(x) for x in rest][:i] == [ast.dump(x) for x in tree.body[:i]]:
                at = i + 1
                break
    row = {"pro": pro, "body": forest(orig, False), "after_import_at": at, "after_body": forest(tree, True)}
    # (ii) strip what may have been added; everything else must be identical, attributes included
    stripped = tree
    if at:
        del stripped.body[at - 1]
    for n in ast.walk(stripped):
        if isinstance(n, DEFS):
            n.decorator_list = [d for d in n.decorator_list if not is_jt(d)]
    if ast.dump(stripped, include_attributes=True) != ast.dump(orig, include_attributes=True):
        problems.append("a node or a line/column number other than the permitted additions differs")
    # (iii) the transformed tree compiles (rebuild it, since we just stripped the first copy)
    tree2 = ast.parse(src, path)
    out = transformer_factory().visit(tree2)
    tree2 = out if out is not None else tree2
    ast.fix_missing_locations(tree2)
    try:
        code = compile(tree2, path, "exec", dont_inherit=True)
    except Exception as e:  # noqa
        problems.append("transformed module does not compile: " + type(e).__name__ + ": " + str(e)[:80])
        code = None
    if code is not None:
        try:
            c0 = compile(orig, path, "exec", dont_inherit=True)
            if c0.co_flags != code.co_flags:
                problems.append("__future__ compiler flags differ")
            # CO_NEWLOCALS distinguishes function (and lambda / comprehension) code objects from class bodies,
            # which may carry the same name as some function in the file
            f0 = sorted((c.co_name, c.co_firstlineno) for c in iter_code(c0) if c.co_flags & 0x2)
            f1 = sorted((c.co_name, c.co_firstlineno) for c in iter_code(code) if c.co_flags & 0x2)
            # not part of the property (and not demanded): the code object of a class that has user decorators starts at
            # the `class` line instead of the first decorator's line, because the added outermost decorator carries the
            # class statement's position; function code objects must keep theirs
            fns = {n.name for n in ast.walk(orig) if isinstance(n, (ast.FunctionDef, ast.AsyncFunctionDef))} | {"<lambda>"}
            if [x for x in f0 if x[0] in fns] != [x for x in f1 if x[0] in fns]:
                problems.append("co_firstlineno of some function differs")
            if ast.get_docstring(orig, clean=False) != ast.get_docstring(tree2, clean=False):
                problems.append("module docstring differs")
            # the same through the import hook's own loader (its compile() calls must not inherit anything from the hook module)
            if len(src) < 20000:
                from jaxtyping._import_hook import _JaxtypingLoader, Typechecker
                ld = _JaxtypingLoader("verif_mod", path, typechecker=Typechecker("beartype.beartype"))
                lc = ld.source_to_code(src.encode("utf-8"), path)
                if lc.co_flags != c0.co_flags:
                    problems.append("loader: __future__ compiler flags differ")
                fl0 = sorted((c.co_name, c.co_firstlineno, c.co_flags) for c in iter_code(c0) if c.co_flags & 0x2)
                fl1 = sorted((c.co_name, c.co_firstlineno, c.co_flags) for c in iter_code(lc) if c.co_flags & 0x2)
                if [x for x in fl0 if x[0] in fns] != [x for x in fl1 if x[0] in fns]:
                    problems.append("loader: flags / first line of some function's code differ")
        except SyntaxError:
            pass
    return row, problems


def iter_code(c):
    import types
    for k in c.co_consts:
        if isinstance(k, types.CodeType):
            yield k
            yield from iter_code(k)


def worker(args):
    items, out_path, id0 = args
    from jaxtyping._import_hook import JaxtypingTransformer, Typechecker
    fac = lambda: JaxtypingTransformer(typechecker=Typechecker("beartype.beartype"))
    # the IPython magic keeps ONE transformer for all cells (each cell is a Module): every other module of this worker
    # goes through the same instance; the import hook builds a fresh one per module
    shared = fac()
    fac_shared = lambda: shared
    probs = []
    n = 0
    with open(out_path, "w") as f:
        for k, (path, src) in enumerate(items):
            if src is None:
                try:
                    src = open(path, encoding="utf-8").read()
                    compile(src, path, "exec", dont_inherit=True)    # "every syntactically valid Python module"
                except (SyntaxError, UnicodeDecodeError, ValueError, RecursionError, MemoryError):
                    continue
            try:
                row, problems = validate_source(src, path, fac_shared if k % 2 else fac)
            except RecursionError:
                continue
            row["id"] = id0 + k
            row["path"] = path
            f.write(json.dumps(row, separators=(",", ":")) + "\n")
            n += 1
            for p in problems:
                probs.append((path, p, src if len(src) < 2000 else None))
    return n, probs


def render_skeleton(pro, forest_, rng):
    lines = []
    body_emitted = False

    def emit_forest(fs, ind, out):
        for i, n in enumerate(fs):
            pad = "    " * ind
            wrap = rng.choice(["", "", "if", "try", "match", "with", "except", "finally", "else", "for"]) if ind < 2 else ""
            if wrap == "if":
                out.append(f"{pad}if True:")
                pad += "    "
            elif wrap == "try":
                out.append(f"{pad}try:")
                pad += "    "
            elif wrap == "match":
                out.append(f"{pad}match 1:")
                out.append(f"{pad}    case 1:")
                pad += "        "
            elif wrap == "with":
                out.append(f"{pad}with open(__file__) as _f:")
                pad += "    "
            elif wrap == "except":       # the optional-accelerator idiom: the fallback is defined in the except clause
                out.append(f"{pad}try:")
                out.append(f"{pad}    import _no_such_module_")
                out.append(f"{pad}except ImportError:")
                pad += "    "
            elif wrap == "finally":
                out.append(f"{pad}try:")
                out.append(f"{pad}    pass")
                out.append(f"{pad}finally:")
                pad += "    "
            elif wrap == "else":
                out.append(f"{pad}if False:")
                out.append(f"{pad}    pass")
                out.append(f"{pad}else:")
                pad += "    "
            elif wrap == "for":
                out.append(f"{pad}for _i in range(1):")
                pad += "    "
            for d in n["decs"]:
                out.append(f"{pad}@{rng.choice(['deco', 'deco2(1)', 'ns.d'])}")
            nm = f"n{rng.randint(0, 9999)}"
            if n["k"] == "class":
                out.append(f"{pad}class {nm}{rng.choice(['', '(object)', '[T]'])}:")
            else:
                out.append(f"{pad}{'async ' if n['k'] == 'adef' else ''}def {nm}(x, *a, y: int = (lambda z: z)(1), **k){rng.choice(['', ' -> int'])}:")
            sub = []
            emit_forest(n["c"], 0, sub)
            inner = pad + "    "
            out.append(f"{inner}'''doc'''")
            for s_ in sub:
                out.append(inner + s_)
            out.append(f"{inner}z = [v for v in range(3)]")
            if wrap == "try":
                out.append(f"{pad[:-4]}except Exception:")
                out.append(f"{pad}pass")
    for k in pro:
        if k == "future":
            lines.append(rng.choice(["from __future__ import annotations", "from __future__ import division, annotations"]))
        elif k == "cexpr":
            lines.append(rng.choice(['"""doc\n   string"""', "''", "'''   '''", "1", "...", 'b"x"', "None"]))
        else:
            if not body_emitted and forest_:
                emit_forest(forest_, 0, lines)
                body_emitted = True
            else:
                lines.append(rng.choice(["import os", "x = 1", "def deco(f):\n    return f", "pass"]))
    return "\n".join(lines) + "\n"


def main(tier):
    chk = Check("C10", tier, level="translation_validation")
    try:
        wd = chk.workdir
        fpath = os.path.join(wd, "skels.json")
        cfg = os.path.join(wd, "ast.cfg")
        consts = {"MaxPro": 3 if tier == "quick" else 4, "MaxNodes": 2 if tier == "quick" else 3}
        tlc.write_cfg(cfg, spec="Spec", constants=consts, invariants=["Theorems"])
        res = tlc.run("MC_JtHookAst", cfg, wd, env={"VERIF_OUT": fpath}, heap="8g")
        chk.add_tlc("MC_JtHookAst", res)
        fac = json.load(open(fpath))
        rng = random.Random(chk.seed)
        items = []
        # generated modules: every prologue x a sample of forests (and every forest x a sample of prologues)
        forests = [f if f else [] for f in fac["forests"]]
        pros = [p if p else [] for p in fac["pros"]]
        gen = []
        for p in pros:
            for f in rng.sample(forests, min(len(forests), 25 if tier == "quick" else 200)):
                gen.append((p, f))
        for f in forests:
            gen.append((rng.choice(pros) + ["other"], f))
        for gi, (p, f) in enumerate(gen):
            p2 = list(p)
            if f and "other" not in p2:
                p2.append("other")
            src = render_skeleton(p2, f, rng)
            try:
                compile(src, "<gen>", "exec", dont_inherit=True)     # e.g. a __future__ import after other statements is no module
            except SyntaxError:
                continue
            items.append((f"<generated {gi}>", src))
        ngen = len(items)
        # corpus
        roots = [os.environ.get("VERIF_REPO", "/repo"), sysconfig.get_paths()["stdlib"], sysconfig.get_paths()["purelib"]]
        files = []
        for r in roots:
            files += glob.glob(os.path.join(r, "**", "*.py"), recursive=True)
        files = sorted(set(files))
        repo_files = [f for f in files if f.startswith(roots[0])]
        other = [f for f in files if not f.startswith(roots[0])]
        if tier == "quick":
            other = rng.sample(other, min(len(other), 1200))
        items += [(f, None) for f in repo_files + other]
        nproc = tlc.NCPU
        jobs = [(items[i::nproc], os.path.join(wd, f"ast_{i}.ndjson"), i * 10_000_000) for i in range(nproc)]
        with ProcessPoolExecutor(max_workers=nproc) as ex:
            outs = list(ex.map(worker, jobs))
        n = sum(o[0] for o in outs)
        filesr = [j[1] for j in jobs]
        mism, total = validate_rows(chk, "Rows_JtHookAst", filesr, name="tv", canary_field="none", heap="6g")
        # binding self-test: drop one J from a transformed skeleton
        rejected_ids = {m[0] for m in mism}
        for line in open(filesr[0]):
            r = json.loads(line)
            if r["id"] in rejected_ids:
                continue                 # corrupt a row the specification ACCEPTS
            if r["after_body"] and "J" in r["after_body"][0]["decs"]:
                r["after_body"][0]["decs"].remove("J")
                p = os.path.join(wd, "corrupt.ndjson")
                open(p, "w").write(json.dumps(r) + "\n")
                m2, _ = validate_rows(chk, "Rows_JtHookAst", [p], name="selftest", canary_field="none")
                chk.cov["tlc_runs"].pop()
                if not m2:
                    raise MachineryFailure("binding self-test: corrupted skeleton accepted")
                break
        want = dict(mism)
        for fp in filesr:
            for line in open(fp):
                r = json.loads(line)
                if r["id"] in want:
                    chk.disagree(f"C10:skeleton:{r['path']}", {"row": {k: r[k] for k in ('pro', 'after_import_at')}, "path": r["path"],
                                                                "spec_expected_import_at": want[r["id"]].get("import_at")})
        nprob = 0
        for o in outs:
            for path, p, src in o[1]:
                nprob += 1
                chk.disagree(f"C10:{p}:{path}", {"path": path, "problem": p, "source": src})
        chk.cov["programs"] = n
        chk.cov["disagreements_checked"] = total + 3 * n
        chk.cov["traces_validated_against_impl"] = total
        chk.cov["evaluations"] = n
        chk.cov["distinct_nontrivial"] = n
        chk.cov["rule"] = ("programs = %d modules rendered from TLC-enumerated skeletons (all prologues of <=%d statements x forests of <=%d "
                           "def/async def/class nodes with 0..2 decorators, wrapped at random in if/try/with/match) + the repository + %s of "
                           "the standard library and site-packages; per program: skeleton law decided by TLC, strip-and-compare of the full "
                           "AST with attributes, compile, compiler flags, co_firstlineno, docstring"
                           % (ngen, consts["MaxPro"], consts["MaxNodes"], "a seeded sample of 1200 files" if tier == "quick" else "all files"))
        chk.sample({"generated_module": items[5][1]})
        chk.part("programs", generated=ngen, corpus=n - ngen)
        chk.assumptions += ["the IPython magic uses the same JaxtypingTransformer.visit(Module) entry point, with one instance for "
                            "all cells: every other module is transformed by an instance that has transformed others before",
                            "behavioural equivalence of well-typed calls is covered by C07, not re-run here"]
    except MachineryFailure as e:
        return chk.abort(str(e))
    return chk.finish()
