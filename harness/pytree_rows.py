"""Rows of MC_JtPyTree executed on the implementation (shared by C04, C08, C09, C16).

Renderers: abstract tree -> Python tree, abstract leaf type -> Python type, structure spec ->
string; abstracters: context incl. structure bindings -> abstract PMemo (JAX's tree_util is
the trusted party for structures)."""
import collections
import json
import os
import random
import re
import typing
from concurrent.futures import ProcessPoolExecutor

from . import tlc
from .common import MachineryFailure, validate_rows

NT = collections.namedtuple("NT", ["p", "q"])
_state = {}


def _lazy():
    if _state:
        return _state
    import numpy as np
    import jax.tree_util as jtu
    from jaxtyping import Float, Int, Shaped, PyTree

    @jtu.register_pytree_node_class
    class Cust:
        def __init__(self, *children):
            self.children = children

        def tree_flatten(self):
            return self.children, len(self.children)

        @classmethod
        def tree_unflatten(cls, aux, children):
            return cls(*children)

    @jtu.register_pytree_node_class
    class ACust:
        """a registered node that is also array-like: shape (2,), float32"""
        shape = (2,)
        dtype = np.dtype("float32")

        def __init__(self, *children):
            self.children = children

        def tree_flatten(self):
            return self.children, len(self.children)

        @classmethod
        def tree_unflatten(cls, aux, children):
            return cls(*children)

    _state.update(np=np, jtu=jtu, Float=Float, Int=Int, Shaped=Shaped, PyTree=PyTree, Cust=Cust, ACust=ACust)
    return _state


def render_tree(x, rng=None):
    st = _lazy()
    k = x["k"]
    if k == "int":
        return 7
    if k == "str":
        return "s"
    if k == "flt":
        return 7.0          # == the int atom, same hash, not an int
    if k == "arr":
        from . import render as R
        return R.zeros(x["shape"], st["np"].float32 if x["dt"] == "f" else st["np"].int32)
    if k == "none":
        return None
    cs = [render_tree(c, rng) for c in x["c"]]
    if k == "tuple":
        return tuple(cs)
    if k == "list":
        return cs
    if k == "dict":
        items = list(zip(x["keys"], cs))
        if rng is not None:
            rng.shuffle(items)       # insertion order must not matter
        return dict(items)
    if k == "nt":
        return NT(*cs)
    if k == "cust":
        return st["Cust"](*cs)
    if k == "acust":
        return st["ACust"](*cs)
    raise ValueError(k)


_lt_cache = {}


def render_leaftype(L):
    st = _lazy()
    key = json.dumps(L)
    if key in _lt_cache:
        return _lt_cache[key]
    from . import render as R
    k = L[0]
    if k == "int":
        t = int
    elif k == "str":
        t = str
    elif k == "tup2":
        t = tuple[int, int]
    elif k == "any":
        t = typing.Any
    elif k == "arr":
        d = {"f": st["Float"], "i": st["Int"], "s": st["Shaped"]}[L[2]]
        if len(L) >= 4 and L[3] == "any":
            t = d[typing.Any, R.dim_str(L[1])]
        elif len(L[1]) >= 2:   # written by nesting: outer dims prepended to an inner annotation
            t = R.array_ann_nested(L[1], 1, dtype=d)
        else:
            t = d[st["np"].ndarray, R.dim_str(L[1])]
    elif k == "union|":
        t = render_leaftype(L[1]) | render_leaftype(L[2])          # PEP 604 spelling
    elif k == "union":
        t = typing.Union[render_leaftype(L[1]), render_leaftype(L[2])]
    elif k == "tupA":
        t = tuple[render_leaftype(L[1]), int]
    elif k == "pt":
        t = st["PyTree"][render_leaftype(L[1])]
    elif k == "ptS":
        t = st["PyTree"][render_leaftype(L[1]), L[2]["str"]]
    else:
        raise ValueError(k)
    _lt_cache[key] = t
    return t


_hint_cache = {}


def render_hint(L, S, bare=False):
    st = _lazy()
    if bare:
        return st["PyTree"]
    key = (json.dumps(L), S["str"])
    h = _hint_cache.get(key)
    if h is None:
        lt = render_leaftype(L)
        h = st["PyTree"][lt] if not S["pieces"] else st["PyTree"][lt, S["str"]]
        _hint_cache[key] = h
    return h


class _Star:
    pass


_STAR = _Star()


def abstract_struct(treedef):
    st = _lazy()
    obj = st["jtu"].tree_unflatten(treedef, [_STAR] * treedef.num_leaves)
    return _abs_obj(obj)


def _abs_obj(o):
    st = _lazy()
    if o is _STAR:
        return {"k": "*", "c": [], "keys": []}
    if o is None:
        return {"k": "none", "c": [], "keys": []}
    if isinstance(o, NT):
        return {"k": "nt", "c": [_abs_obj(c) for c in o], "keys": []}
    if isinstance(o, tuple):
        return {"k": "tuple", "c": [_abs_obj(c) for c in o], "keys": []}
    if isinstance(o, list):
        return {"k": "list", "c": [_abs_obj(c) for c in o], "keys": []}
    if isinstance(o, dict):
        ks = sorted(o)
        return {"k": "dict", "c": [_abs_obj(o[k]) for k in ks], "keys": ks}
    if isinstance(o, st["Cust"]):
        return {"k": "cust", "c": [_abs_obj(c) for c in o.children], "keys": []}
    if isinstance(o, st["ACust"]):
        return {"k": "acust", "c": [_abs_obj(c) for c in o.children], "keys": []}
    raise ValueError(type(o))


_leaf_re = re.compile(r"^\(Leaf (\d+) in structure (.*?)\) (.*)$", re.S)


def abs_key(k):
    m = _leaf_re.match(k)
    if m:
        return f"<{m.group(1)}|{m.group(2)}>{m.group(3)}"
    return k


def observe_pmemo():
    from . import render as R
    m, route = R.observe_memo(want_args=True)
    if route != "storage":
        raise MachineryFailure("structure bindings can only be observed through jaxtyping._storage today")
    return {"single": {abs_key(k): v for k, v in m["single"].items()},
            "variadic": {abs_key(k): v for k, v in m["variadic"].items()},
            "pytree": {k: abstract_struct(v) for k, v in m["pytree"].items()}}


def norm_pmemo(m):
    def fix(x):
        return dict(x) if x else {}
    return {"single": fix(m["single"]), "variadic": fix(m["variadic"]), "pytree": fix(m["pytree"])}


_qkey = re.compile(r"^<(\d+)\|(.*?)>(.*)$")


def establish(pre, t_tree=None, s_tree=None):
    """canonical accepted checks (public API) that produce the context `pre`"""
    from . import render as R
    st = _lazy()
    ok = True
    qs, qv = {}, {}
    for nm, k in pre["single"].items():
        m = _qkey.match(nm)
        if m:
            qs.setdefault((m.group(2), m.group(3)), {})[int(m.group(1))] = k
        else:
            ok &= isinstance(R.zeros((k,)), R.array_ann(nm))
    for nm, v in pre["variadic"].items():
        m = _qkey.match(nm)
        if m:
            qv.setdefault((m.group(2), m.group(3)), {})[int(m.group(1))] = v
        else:
            ok &= isinstance(R.zeros(v["s"]), R.array_ann(("*#" if v["b"] else "*") + nm))
    done = set()
    # per-leaf ('?') bindings come from an earlier tree of that structure
    for (sname, ax), per in list(qs.items()) + list(qv.items()):
        struct = pre["pytree"][sname]
        leaves = iter(range(10 ** 6))
        isvar = (sname, ax) in qv and per is qv[(sname, ax)]

        def fill(s):
            if s["k"] == "*":
                i = next(leaves)
                return R.zeros(per[i]["s"]) if isvar else R.zeros((per[i],))
            return struct_to_tree(dict(s, c=[])) if not s["c"] else _rebuild(s, [fill(c) for c in s["c"]])
        tree = fill(struct)
        bc = isvar and all(v["b"] for v in per.values())      # broadcastable per-leaf bindings (all or none)
        ann = R.array_ann((("#*?" if bc else "*?") if isvar else "?") + ax)
        ok &= isinstance(tree, st["PyTree"][ann, sname])
        done.add(sname)
    for nm, struct in pre["pytree"].items():
        if nm not in done:
            ok &= isinstance(struct_to_tree(struct), st["PyTree"][typing.Any, nm])
    return ok


def _rebuild(s, cs):
    st = _lazy()
    k = s["k"]
    if k == "tuple":
        return tuple(cs)
    if k == "list":
        return cs
    if k == "dict":
        return dict(zip(s["keys"], cs))
    if k == "nt":
        return NT(*cs)
    if k == "cust":
        return st["Cust"](*cs)
    if k == "acust":
        return st["ACust"](*cs)
    raise ValueError(k)


def struct_to_tree(s):
    st = _lazy()
    k = s["k"]
    if k == "*":
        return 0
    if k == "none":
        return None
    cs = [struct_to_tree(c) for c in s["c"]]
    if k == "tuple":
        return tuple(cs)
    if k == "list":
        return cs
    if k == "dict":
        return dict(zip(s["keys"], cs))
    if k == "nt":
        return NT(*cs)
    if k == "cust":
        return st["Cust"](*cs)
    if k == "acust":
        return st["ACust"](*cs)
    raise ValueError(k)


def exec_row(pre, L, S, x, rng, bare=False, args_n=2, mid=None):
    """one check in a fresh context; returns (pre_observed, res, post, prefail); mid(hint): unrelated activity performed
    between the observation of the pre-state and the check"""
    from . import render as R
    h = {}
    hint = render_hint(L, S, bare)
    tree = render_tree(x, rng)

    def body():
        h["est"] = establish(pre)
        h["pre"] = observe_pmemo()
        if mid is not None:
            mid(hint)
        h["res"] = R.verdict(lambda: isinstance(tree, hint))
        h["post"] = observe_pmemo()
        h["flags"] = R.flags()
    R.in_call_context(args_n, body)
    return h


def leaf_worker(args):
    fpath, combos, out_path, id0, seed = args
    fac = json.load(open(fpath))
    trees = fac["trees"]
    rng = random.Random(seed)
    rid = id0
    with open(out_path, "w") as f:
        for (mi, li, si) in combos:
            pre = norm_pmemo(fac["memos"][mi])
            L, S = fac["leafs"][li], fac["structs"][si]
            either = '"sym"' in json.dumps(L) or '"?"' in json.dumps(L)
            for x in trees:
                h = exec_row(pre, L, S, x, rng)
                row = {"id": rid, "bare": False, "L": L, "S": S, "x": x, "pre": h["pre"], "args": {},
                       "res": h["res"], "post": h["post"], "either": either}
                if not h["est"] or h["pre"] != pre:
                    row["prefail"] = True
                if h["flags"].get("flatten") or h["flags"].get("label") is not None:
                    row["flagleak"] = h["flags"]
                f.write(json.dumps(row, separators=(",", ":")) + "\n")
                rid += 1
    return rid - id0


def struct_worker(args):
    fpath, combos, out_path, id0, seed = args
    fac = json.load(open(fpath))
    trees, small, forms = fac["trees"], fac["small"], fac["forms"]
    rng = random.Random(seed)
    rid = id0
    st = _lazy()
    with open(out_path, "w") as f:
        for (ti, si) in combos:
            t, s = small[ti], small[si]
            pt = {}
            if t["k"] != "unbound":
                pt["T"] = abstract_struct(st["jtu"].tree_structure(render_tree(t)))
            if s["k"] != "unbound":
                pt["S"] = abstract_struct(st["jtu"].tree_structure(render_tree(s)))
            pre = {"single": {}, "variadic": {}, "pytree": pt}
            for F in forms:
                for x in trees:
                    h = exec_row(pre, ["any"], F, x, rng)
                    row = {"id": rid, "bare": False, "L": ["any"], "S": F, "x": x, "pre": h["pre"], "args": {},
                           "res": h["res"], "post": h["post"], "either": False}
                    if not h["est"] or h["pre"] != pre:
                        row["prefail"] = True
                    f.write(json.dumps(row, separators=(",", ":")) + "\n")
                    rid += 1
    return rid - id0


def run_table(chk, pid, consts, tag, invariants, *, sample_limit=2):
    """MC theorems + emission + execution + validation of one MC_JtPyTree universe."""
    wd = chk.workdir
    mode = consts["Mode"]
    cfg = os.path.join(wd, f"mcpt_{tag}.cfg")
    tlc.write_cfg(cfg, spec="Spec", constants=consts, invariants=invariants)
    res = tlc.run("MC_JtPyTree", cfg, wd, timeout=3000, heap="12g")
    chk.add_tlc(f"MC_JtPyTree[{tag}]", res)
    fpath = os.path.join(wd, f"ptfactors_{tag}.json")
    ecfg = os.path.join(wd, f"ptemit_{tag}.cfg")
    tlc.write_cfg(ecfg, init="EmitInit", next="EmitNext", constants=consts)
    er = tlc.run("Emit_JtPyTree", ecfg, wd, workers=1, env={"VERIF_OUT": fpath}, timeout=1200)
    if not er.ok or not os.path.exists(fpath):
        raise MachineryFailure("pytree factor emission failed:\n" + er.tail())
    fac = json.load(open(fpath))
    if mode == "leaf":
        combos = [(mi, li, si) for mi in range(len(fac["memos"])) for li in range(len(fac["leafs"]))
                  for si in range(len(fac["structs"]))]
        per = len(fac["trees"])
        worker = leaf_worker
    else:
        combos = [(ti, si) for ti in range(len(fac["small"])) for si in range(len(fac["small"]))]
        per = len(fac["trees"]) * len(fac["forms"])
        worker = struct_worker
    if len(combos) * per != fac["rowcount"]:
        raise MachineryFailure(f"pytree row count {len(combos)}x{per} != {fac['rowcount']}")
    rng = random.Random(chk.seed)
    rng.shuffle(combos)
    nproc = min(tlc.NCPU, len(combos))
    chunks = [combos[i::nproc] for i in range(nproc)]
    jobs, id0 = [], 0
    for i, c in enumerate(chunks):
        jobs.append((fpath, c, os.path.join(wd, f"ptrows_{tag}_{i}.ndjson"), id0, chk.seed * 31 + i))
        id0 += len(c) * per
    with ProcessPoolExecutor(max_workers=nproc) as ex:
        n = sum(ex.map(worker, jobs))
    if n != fac["rowcount"]:
        raise MachineryFailure(f"executed {n} pytree rows, table has {fac['rowcount']}")
    files = [j[2] for j in jobs]
    mism, total = validate_rows(chk, "Rows_JtPyTree", files, name=tag, heap="4g")
    if total != n:
        raise MachineryFailure(f"validated {total} of {n} pytree rows")
    chk.cov["traces_validated_against_impl"] += total
    chk.cov["evaluations"] += total
    want = dict(mism)
    accepted_binding = 0
    for fp in files:
        for line in open(fp):
            if '"res":"T"' in line and ('"single":{"' in line or '"pytree":{"' in line):
                accepted_binding += 1
            need = '"prefail"' in line or '"flagleak"' in line
            if need or want:
                r = json.loads(line)
                if "prefail" in r:
                    chk.disagree(f"{pid}:prestate:{json.dumps(r['pre'], sort_keys=True)[:200]}", {"row": r})
                if "flagleak" in r:
                    chk.disagree(f"{pid}:flagleak:{json.dumps(r['L'])[:80]}", {"row": r})
                if r["id"] in want:
                    chk.disagree(f"{pid}:pytree:L={json.dumps(r['L'])[:160]}:S={r['S']['str']}:x={tree_str(r['x'])}"
                                 f":pre={json.dumps(r['pre'], sort_keys=True)[:200]}",
                                 {"row": r, "spec_expected": want[r["id"]], "universe": tag})
    k = 0
    for line in open(files[0]):
        r = json.loads(line)
        if r["res"] == "T" and r["post"] != r["pre"] and k < sample_limit:
            chk.sample({"hint": f"PyTree[{json.dumps(r['L'])}, {r['S']['str']!r}]", "tree": tree_str(r["x"]),
                        "pre": r["pre"], "res": r["res"], "post": r["post"]}, limit=8)
            k += 1
    chk.part(f"pytree[{tag}]", rows=n, accepted_with_bindings=accepted_binding,
             trees=len(fac["trees"]))
    for fp in files:
        os.remove(fp)
    return n, accepted_binding


def tree_str(x):
    k = x["k"]
    if k == "int":
        return "7"
    if k == "str":
        return "'s'"
    if k == "flt":
        return "7.0"
    if k == "arr":
        return f"{x['dt']}{x['shape']}"
    if k == "none":
        return "None"
    inner = ",".join(tree_str(c) for c in x["c"])
    if k == "dict":
        inner = ",".join(f"{kk}:{tree_str(c)}" for kk, c in zip(x["keys"], x["c"]))
        return "{" + inner + "}"
    return {"tuple": "(", "list": "[", "nt": "NT(", "cust": "Cust(", "acust": "ACust("}[k] + inner + {"tuple": ")", "list": "]", "nt": ")", "cust": ")", "acust": ")"}[k]


LEAF_INVS = ["Rollback", "NestEquiv", "NoneAccepted", "Idempotent", "Monotone", "QKeysDisjoint", "QPerLeaf"]
STRUCT_INVS = ["Rollback", "NoneAccepted", "Idempotent", "Monotone", "FormMeaning", "UnboundIsError"]

C04_U = dict(Mode="leaf", Depth=2, Width=2, NodeKinds={"tuple"}, AtomSet={"int", "arr2", "arr3"}, SmallDepth=1,
             LeafSet={"arrA", "arrBV", "uAV", "uAshV", "utA", "ptA"}, MemoSet={"empty", "a2", "bv1"})


def run_for_c04(chk, tier):
    """C04's PyTree half: failing trees whose mismatch is at the k-th leaf, structure bound before a
    bad leaf, broadcastable *#v widened by an earlier leaf - post-context must equal pre-context."""
    u = dict(C04_U)
    # with the structure name already bound (so that a failing later leaf is the only reason for rejection)
    run_table(chk, "C04", dict(C04_U, NodeKinds={"tuple"}, Depth=1, LeafSet={"uAshV", "arrBV"}, MemoSet={"tpair", "tpair_a2"}),
              "c04-pytree-bound-structure", ["Rollback", "Monotone"])
    if tier == "thorough":
        u.update(NodeKinds={"tuple", "dict"}, Width=2, AtomSet={"int", "arr2", "arr3", "arr23"})
    run_table(chk, "C04", u, "c04-pytree", LEAF_INVS)
