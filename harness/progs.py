"""Script interpreter: performs a JtProgram behaviour (list of action records) on the real
library and records what the program can observe after every action."""
import warnings

warnings.simplefilter("ignore")


class UserExc(Exception):
    pass


class UserBase(BaseException):
    pass


class _Return(Exception):
    pass


_S = {}


def setup(checker_name):
    if checker_name in _S:
        return _S[checker_name]
    import numpy as np
    from jaxtyping import Float, jaxtyped
    from beartype import beartype
    from typeguard import typechecked
    tc = {"beartype": beartype, "typeguard": typechecked}[checker_name]
    A = Float[np.ndarray, "a"]
    env = {"A": A}
    I = Interp()

    def body(n, x: A):
        return I.enter_body()

    def body_none(n, x):
        return I.enter_body()

    def body_bare(n, x):
        return I.enter_body()

    def body_bare0():
        return I.enter_body()

    def gen(n, x: A):
        I.gen_results.append(isinstance(np.zeros((n,), np.float32), A))
        yield 0

    def gen_none(n, x):
        I.gen_results.append(isinstance(np.zeros((n,), np.float32), A))
        yield 0

    import dataclasses

    @jaxtyped(typechecker=tc)
    @dataclasses.dataclass
    class DC:
        n: int
        x: A
    I.DC = DC
    I.funcs = {"new": jaxtyped(typechecker=tc)(body), "old": jaxtyped(tc(body)),
               "none": jaxtyped(typechecker=None)(body_none), "bare": jaxtyped(typechecker=tc)(body_bare),
               "bare0": jaxtyped(typechecker=tc)(body_bare0)}
    I.gens = {"new": jaxtyped(typechecker=tc)(gen), "none": jaxtyped(typechecker=None)(gen_none)}
    I.A = A
    I.np = np
    I.jaxtyped = jaxtyped
    _S[checker_name] = I
    return I


class Interp:
    def __init__(self):
        self.prog, self.pc, self.out, self.pending = [], 0, [], None
        self.live_gens = []
        self.susp_gens = []
        self.gen_results = []

    # ---- observation
    def observe(self, res):
        from . import render as R
        d = R.stack_depth()
        m, _ = R.observe_memo()
        a = m["single"].get("a", 0) if d else 0
        self.out.append({"depth": d, "a": a, "res": res})

    def run(self, prog):
        self.prog, self.pc, self.out, self.pending = prog, 0, [], None
        self.nrun = getattr(self, "nrun", 0) + 1
        self.use_shared_ctx = self.nrun % 2 == 0
        self.shared_ctx = self.jaxtyped("context")
        self.live_gens, self.gen_results, self.susp_gens = [], [], []
        while self.pc < len(self.prog):
            try:
                self.block()
            except BaseException as e:  # noqa - the top level catches everything
                self.observe(self.pending or ("Exc:" + type(e).__name__))
                self.pending = None
        for g in self.live_gens + self.susp_gens:
            g.close()
        from . import render as R
        d = R.stack_depth()
        m, _ = R.observe_memo()
        return self.out, {"depth": d, "a": m["single"].get("a", 0) if d else 0}

    def enter_body(self):
        self.observe("entered")
        return self.block()

    def block(self):
        """perform actions until this frame returns (or the program ends)"""
        np = self.np
        while self.pc < len(self.prog):
            a = self.prog[self.pc]
            self.pc += 1
            op = a["op"]
            if op == "return":
                return True
            if op == "raise":
                self.pending = "raised"
                raise (UserExc if a["cls"] == "Exception" else UserBase)()
            if op == "check":
                r = isinstance(np.zeros((a["k"],), np.float32), self.A)
                self.observe("T" if r else "F")
            elif op == "argcheck":
                from jaxtyping import AnnotationError, Float
                try:
                    r = isinstance(np.zeros((a["k"],), np.float32), Float[np.ndarray, "{n}"])
                    self.observe("T" if r else "F")
                except AnnotationError:
                    self.observe("E")
            elif op == "makegen":
                self.live_gens.append(self.gens[a["kind"]](a["k"], np.zeros((a["k"],), np.float32)))
                self.observe("generator")
            elif op == "gennext":
                g = self.live_gens.pop(0)
                n0 = len(self.gen_results)
                next(g)                      # runs the body up to its yield: the generator stays suspended
                self.susp_gens.append(g)
                self.observe("T" if self.gen_results[n0] else "F")
            elif op == "genclose":
                self.susp_gens.pop(0).close()
                self.observe("closed")
            elif op == "makedc":
                self.DC(a["k"], np.zeros((a["k"],), np.float32))
                self.observe("constructed")
            elif op == "baddc":
                c = a["catches"]
                if c == "no":
                    self.pending = "rejected"
                    self.DC(1, np.zeros((2, 2), np.float32))
                    self.observe("constructed")
                else:
                    try:
                        self.pending = "rejected-caught"
                        self.DC(1, np.zeros((2, 2), np.float32))
                        self.observe("constructed")
                    except (Exception if c == "exc" else BaseException):
                        self.observe(self.pending)
                        self.pending = None
            elif op == "enterctx":
                # every other program re-enters ONE context object (a module-level `scope = jaxtyped("context")`
                # used re-entrantly); the others make a fresh one per block
                with (self.shared_ctx if self.use_shared_ctx else self.jaxtyped("context")):
                    explicit = self.enter_body()
                if explicit:
                    self.observe("returned")
            elif op in ("call", "badcall"):
                f = self.funcs[a["kind"]]
                k = a.get("k", 1)
                x = np.zeros((k,), np.float32) if op == "call" else np.zeros((2, 2), np.float32)
                c = a["catches"]
                if a["kind"] == "bare0":
                    f_ = f
                    f = lambda k_, x_: f_()          # no parameter at all
                if c == "no":
                    if op == "badcall":
                        self.pending = "rejected"
                    if f(k, x):
                        self.observe("returned")
                else:
                    try:
                        if op == "badcall":
                            self.pending = "rejected-caught"
                        if f(k, x):
                            self.observe("returned")
                    except (Exception if c == "exc" else BaseException) as e:  # noqa
                        if isinstance(e, _Return):
                            raise
                        self.observe(self.pending or ("Exc:" + type(e).__name__))
                        self.pending = None
            else:
                raise ValueError(op)
        return False    # the program text is exhausted: frames unwind silently
