"""loads pickles in ANOTHER process and reports acceptance vectors (harness/c20.py)"""
import base64
import json
import pickle
import sys

sys.path.insert(0, sys.argv[1])
import cloudpickle  # noqa: E402
from harness import c20  # noqa: E402

items = json.load(open(sys.argv[2]))
out = []
for it in items:
    try:
        ann = (cloudpickle if it["route"] == "cloudpickle" else pickle).loads(base64.b64decode(it["blob"]))
        out.append(c20.vector(ann))
    except BaseException as e:  # noqa
        out.append(["load:" + type(e).__name__])
print("VECS " + json.dumps(out))
