"""C14 - the dim-string language: modifier order is free, illegal forms are ValueError.

TLC (MC_JtDims): totality / order-freedom / '=' neutrality over all tokens of <= 4 modifier
characters. Binding: every token (alone) and every sequence of <= 3 (quick) / 4 (thorough)
tokens of a reduced alphabet is rendered with random whitespace, handed to the real
`Float[np.ndarray, <spec>]`, and - if it builds - probed on 15 shapes under fixed prior
bindings; TLC (Rows_JtDims) re-decides build outcome and acceptance vector of every row.
"""
import itertools
import json
import os
import random
from concurrent.futures import ProcessPoolExecutor

from . import tlc
from .common import Check, MachineryFailure, validate_rows

WS = [" ", "  ", "\t", " \t ", "\n", "   "]


def render_spec(toks, rng, canonical=False):
    from . import render as R
    parts = [R.tok_str(t, doc=rng.choice(["d", "rows", "x1"])) for t in toks]
    if canonical:
        return " ".join(parts)
    lead = rng.choice(["", " ", "\t", "  \n"])
    trail = rng.choice(["", " ", "\t\t", "\n"])
    return lead + "".join(p + (rng.choice(WS) if i < len(parts) - 1 else "") for i, p in enumerate(parts)) + trail


# identifiers with combining marks (legal Python identifiers, stable under NFKC): every fourth row is spelled with them
UNI = {"a": "\u0932\u0902\u092c\u093e\u0908", "b": "\u0637\u064f\u0648\u0644", "v": "\u0906\u0915\u093e\u0930"}


def rename(toks, m):
    def ex(e):
        if not e:
            return e
        if e[0] == "n":
            return ["n", m.get(e[1], e[1])]
        if e[0] in ("i", "a"):
            return e
        return [e[0], ex(e[1]), ex(e[2])]
    out = json.loads(json.dumps(toks))
    for t in out:
        b = t["base"]
        if b["k"] == "ident":
            b["nm"] = m.get(b["nm"], b["nm"])
        elif b["k"] == "sym":
            b["e"] = ex(b["e"])
    return out


def worker(args):
    specs_path, lo, hi, out_path, seed = args
    from . import render as R
    import numpy as np
    from jaxtyping import Float, PyTree
    fac = json.load(open(specs_path))
    specs = fac["specs"][lo:hi]
    probes = [tuple(p) for p in fac["probes"]]
    rng = random.Random(seed)
    ident = {"a": "a", "b": "b", "v": "v"}

    def establish(q, nm=ident):
        try:
            return _establish(q, nm)
        except BaseException:  # noqa - the prior bindings are plain accepted checks: they never raise
            return False

    def _establish(q, nm):
        ok = isinstance(R.zeros((2,)), R.array_ann(nm["a"])) and isinstance(R.zeros((3,)), R.array_ann(nm["b"])) \
            and isinstance(R.zeros((2,)), R.array_ann("*" + nm["v"]))
        if q:
            ok = ok and isinstance(R.zeros((3,)), PyTree[Float[np.ndarray, "?" + nm["a"]], "T"]) \
                and isinstance(R.zeros((3,)), PyTree[Float[np.ndarray, "*?" + nm["v"]], "T"])
        return ok

    with open(out_path, "w") as f:
        for k, toks in enumerate(specs):
            rid = lo + k
            q = any("?" in t["mods"] for t in toks)
            nm = UNI if rid % 4 == 3 else ident
            s = render_spec(rename(toks, nm) if nm is UNI else toks, rng, canonical=(rid % 3 == 0))
            row = {"id": rid, "kind": "spec", "toks": toks, "str": s, "vec": []}
            # an illegal specification is illegal whatever the array type - also for the Python scalar types
            try:
                Float[float, s]
                row["build_scalar"] = "ok"
            except ValueError:
                row["build_scalar"] = "ValueError"
            except BaseException as e:  # noqa
                row["build_scalar"] = "Exc:" + type(e).__name__
            try:
                ann = Float[np.ndarray, s]
                row["build"] = "ok"
            except ValueError:
                row["build"] = "ValueError"
            except BaseException as e:  # noqa
                row["build"] = "Exc:" + type(e).__name__
            if row["build"] == "ok":
                hint = PyTree[ann, "T"] if q else ann
                vec = []
                for p in probes:
                    h = {}

                    def body():
                        if not establish(q, nm):
                            h["pre"] = "prior bindings could not be established"
                        h["r"] = R.verdict(lambda: isinstance(R.zeros(p), hint))
                    R.in_call_context(fac["args"]["n"], body)
                    if "pre" in h:
                        row["prefail"] = h["pre"]
                    vec.append(h["r"])
                row["vec"] = vec
            f.write(json.dumps(row, separators=(",", ":")) + "\n")
    return hi - lo


NONSTR = [3, None, ["a"], ("a",), b"a", 3.5, {"a"}, {"a": 1}, bytearray(b"a"), True]


def main(tier):
    chk = Check("C14", tier)
    try:
        wd = chk.workdir
        cfg = os.path.join(wd, "mc.cfg")
        tlc.write_cfg(cfg, spec="Spec", invariants=["AllTheorems", "DotsIsStarUnderscore"])
        chk.add_tlc("MC_JtDims", tlc.run("MC_JtDims", cfg, wd))
        fpath = os.path.join(wd, "factors.json")
        ecfg = os.path.join(wd, "emit.cfg")
        tlc.write_cfg(ecfg, init="EmitInit", next="EmitNext")
        er = tlc.run("Emit_JtDims", ecfg, wd, workers=1, env={"VERIF_OUT": fpath})
        if not er.ok or not os.path.exists(fpath):
            raise MachineryFailure("emission failed:\n" + er.tail())
        fac = json.load(open(fpath))
        multilen = 3 if tier == "quick" else 4
        specs = [[t] for t in fac["single"]] + [[]]
        for n in range(2, multilen + 1):
            specs += [list(c) for c in itertools.product(fac["reduced"], repeat=n)]
        # plus: every single token embedded between two plain axes (position independence)
        plain = [t for t in fac["reduced"] if t["base"]["k"] == "int" and not t["mods"]][:1]
        if tier != "quick":
            specs += [plain + [t] + plain for t in fac["single"]]
        fac["specs"] = specs
        spath = os.path.join(wd, "specs.json")
        json.dump(fac, open(spath, "w"))
        n = len(specs)
        nproc = tlc.NCPU
        jobs = [(spath, i * n // nproc, (i + 1) * n // nproc, os.path.join(wd, f"rows_{i}.ndjson"), chk.seed * 100 + i)
                for i in range(nproc)]
        with ProcessPoolExecutor(max_workers=nproc) as ex:
            done = sum(ex.map(worker, jobs))
        files = [j[3] for j in jobs]
        # non-string specifications
        import numpy as np
        from jaxtyping import Float
        nsp = os.path.join(wd, "rows_nonstr.ndjson")
        with open(nsp, "w") as f:
            for i, x in enumerate(NONSTR):
                try:
                    Float[np.ndarray, x]
                    b = "ok"
                except ValueError:
                    b = "ValueError"
                except BaseException as e:  # noqa
                    b = "Exc:" + type(e).__name__
                f.write(json.dumps({"id": 10_000_000 + i, "kind": "nonstr", "toks": [], "str": repr(x),
                                    "build": b, "build_scalar": b, "vec": []}) + "\n")
        files.append(nsp)
        mism, total = validate_rows(chk, "Rows_JtDims", files, name="specs", canary_field="build_canary",
                                    spec="RSpec")
        if total != done + len(NONSTR):
            raise MachineryFailure(f"validated {total} of {done + len(NONSTR)} rows")
        # binding self-test: corrupt one accepted vector entry
        self_test(chk, files)
        want = dict(mism)
        legal = nontriv = 0
        for fp in files:
            for line in open(fp):
                r = json.loads(line)
                if r["build"] == "ok":
                    legal += 1
                    if "T" in r["vec"] and "F" in r["vec"]:
                        nontriv += 1
                if "prefail" in r:
                    chk.disagree(f"C14:prestate:{r['str']!r}", {"row": r})
                if r["id"] in want:
                    chk.disagree(f"C14:{r['kind']}:{r['str']!r}:build={r['build']}",
                                 {"row": r, "spec_expected": want[r["id"]]})
                if r["id"] in (7, 4000):
                    chk.sample(r)
        chk.cov["traces_validated_against_impl"] = total
        chk.cov["evaluations"] = total
        chk.cov["distinct_nontrivial"] = nontriv
        chk.cov["exhaustive"] = True
        chk.cov["rule"] = ("all tokens of <=4 modifier chars x 9 bases alone, all sequences of <=%d tokens of a 13-token "
                           "alphabet, random whitespace; non-trivial = built and both accepts and rejects some probe" % multilen)
        chk.part("specs", total=total, built=legal, nonstring=len(NONSTR))
        chk.assumptions += ["an empty base without '_' and 'name=...' have no documented meaning: build may succeed or "
                            "raise ValueError, no acceptance behaviour demanded",
                            "repeated 'name=' prefixes (a=b=3) are outside the explored universe"]
    except MachineryFailure as e:
        return chk.abort(str(e))
    return chk.finish()


def self_test(chk, files):
    """corrupt one probe answer of one built row: TLC must reject it."""
    for fp in files:
        for line in open(fp):
            r = json.loads(line)
            if r["kind"] == "spec" and r["build"] == "ok" and r["vec"] and r["vec"][3] in ("T", "F") \
                    and not any(t["base"]["k"] in ("empty", "sym") or "?" in t["mods"] for t in r["toks"]):
                r["vec"][3] = "F" if r["vec"][3] == "T" else "T"
                p = os.path.join(chk.workdir, "corrupt.ndjson")
                open(p, "w").write(json.dumps(r) + "\n")
                sub = Check("C14", chk.tier)
                try:
                    mism, _ = validate_rows(sub, "Rows_JtDims", [p], name="selftest", canary_field="none", spec="RSpec")
                finally:
                    import shutil
                    shutil.rmtree(sub.workdir, ignore_errors=True)
                if not mism:
                    raise MachineryFailure("binding self-test: corrupted acceptance vector was accepted")
                chk.part("binding_selftest", corrupted_vector="rejected")
                return
    raise MachineryFailure("binding self-test: no suitable row")
