"""C06 - threads never see each other's bindings or transient check state.

TLC (JtThreads): Isolation over all interleavings of the threads' storage accesses with a bounded
number of preemptions; the shared-storage variant must be refuted. Every schedule TLC enumerates
is replayed on the implementation by a forced scheduler (real threads, one context switch
possible before every access to jaxtyping's storage); every thread must obtain exactly the
verdicts and binding transcripts of its solo run."""
import json
import os
import random
import re
from concurrent.futures import ProcessPoolExecutor

from . import tlc
from .common import Check, MachineryFailure

PAIRS_QUICK = [("small", "small", 3), ("shared", "shared", 2), ("free", "free", 3), ("free", "small", 3), ("call", "ctx", 2), ("tree", "call", 1),
               ("tree", "tree", 1), ("ctx", "tree", 1)]
PAIRS_THOROUGH = [("small", "small", 5), ("shared", "shared", 3), ("shared", "call", 2), ("free", "free", 4), ("free", "small", 4), ("call", "ctx", 2), ("tree", "call", 2),
                  ("tree", "tree", 2), ("ctx", "tree", 2), ("call", "call", 2), ("free", "tree", 2), ("free", "call", 2)]
# statement granularity inside the storage module (a switch between two statements of push / pop / set ...)
FINE_QUICK = [("call", "call", 1), ("small", "ctx", 1), ("call", "tree", 1)]
FINE_THOROUGH = [("call", "call", 2), ("small", "ctx", 2), ("call", "tree", 1), ("tree", "tree", 1), ("free", "call", 1), ("ctx", "ctx", 2)]
TRIPLES = [("small", "free", "small", 2), ("call", "tree", "ctx", 1), ("free", "free", "free", 2)]


def solo(names, fine=False):
    from . import sched
    W = sched.make_workloads()
    out = []
    for i, nm in enumerate(names):
        w = W[nm](2 + i)
        sched.run_threads({1: w}, [])           # warm-up: first-use caches must not change the op sequence
        res, ctl = sched.run_threads({1: w}, [], fine=fine)
        out.append({"obs": res[1], "ops": ctl.ops.get(1, [])})
    return out


def replay_chunk(args):
    names, schedules, solos = args[:3]
    fine = len(args) > 3 and args[3]
    from . import sched
    W = sched.make_workloads()
    bad = []
    ws = {i + 1: W[nm](2 + i) for i, nm in enumerate(names)}
    for w in ws.values():
        sched.run_threads({1: w}, [])           # warm-up
    for s in schedules:
        res, ctl = sched.run_threads(ws, s, fine=fine)
        for patience in (30.0, 120.0):
            if not ctl.stuck:
                break
            # a thread did not reach its next yield point in time (a loaded machine, not the library: there is no
            # lock in it to wait on) - run the schedule again with a generous time-out before judging
            sched.Controller.timeout = patience
            res, ctl = sched.run_threads(ws, s, fine=fine)
            sched.Controller.timeout = 5.0
        for i in range(len(names)):
            if ctl.stuck:
                bad.append({"machinery": "scheduler timed out three times", "workloads": names, "schedule": s, "thread": 0})
                break
            if res.get(i + 1) != solos[i]["obs"]:
                bad.append({"workloads": names, "schedule": s, "thread": i + 1, "solo": solos[i]["obs"],
                            "observed": res.get(i + 1), "stuck": ctl.stuck})
                break
    return bad, len(schedules)


OPNAME = {"push_shape_memo": "push", "pop_shape_memo": "pop", "get_shape_memo": "get", "set_shape_memo": "set",
          "_has_shape_memo": "has", "set_treeflatten_memo": "set_flatten", "clear_treeflatten_memo": "clear_flatten",
          "get_treeflatten_memo": "get_flatten", "set_treepath_memo": "set_label", "clear_treepath_memo": "clear_label",
          "get_treepath_memo": "get_label", "shape_str": "fmt", "print_bindings": "fmt", "other": "other", "line": "other"}


def schedules_from_tlc(chk, names, solos, maxpre, shared=False, tag=""):
    wd = chk.workdir
    ops = [[OPNAME.get(o, "unknown") for o in s["ops"]] for s in solos]
    opsdef = "<<" + ", ".join("<<" + ", ".join(json.dumps(o) for o in t) + ">>" for t in ops) + ">>"
    mod = f"MC_JtThreads_{os.getpid()}_{abs(hash((tuple(names), maxpre, shared, tag))) % 10**8}"
    # the recorded access sequences become the constant Ops of a generated root module (in the scratch directory)
    with open(os.path.join(wd, mod + ".tla"), "w") as f:
        f.write(f"---- MODULE {mod} ----\nEXTENDS JtThreads\nOpsDef == {opsdef}\n====\n")
    cfg = os.path.join(wd, mod + ".cfg")
    tlc.write_cfg(cfg, spec="Spec", constants={"Ops": tlc.Sub("OpsDef"), "SharedStorage": shared, "MaxPreempt": maxpre},
                  invariants=["Isolation"], constraints=[] if shared else ["Emit"])
    res = tlc.run(mod, cfg, wd, workers=4, timeout=1200, heap="8g", spec_dir=wd)
    if shared:
        chk.add_tlc(f"JtThreads[{'+'.join(names)}, shared] (must be refuted)", res, expect_violation="Isolation")
        return []
    chk.add_tlc(f"JtThreads[{'+'.join(names)}, preempt<={maxpre}{', ' + tag if tag else ''}]", res)
    scheds = [json.loads(v[1]) for v in res.printed() if isinstance(v, list) and len(v) == 2 and v[0] == "SCHED"]
    if not scheds:
        raise MachineryFailure("no schedules emitted:\n" + res.tail())
    return scheds


def main(tier):
    chk = Check("C06", tier)
    try:
        combos = [(c[:-1], c[-1]) for c in (PAIRS_QUICK if tier == "quick" else PAIRS_THOROUGH)]
        combos += [(c[:-1], c[-1]) for c in (TRIPLES[:1] if tier == "quick" else TRIPLES)]
        nfine = len(FINE_QUICK if tier == "quick" else FINE_THOROUGH)
        combos += [(c[:-1], c[-1]) for c in (FINE_QUICK if tier == "quick" else FINE_THOROUGH)]
        rng = random.Random(chk.seed)
        total = 0
        cap = 1200 if tier == "quick" else 40000
        for ci, (names, maxpre) in enumerate(combos):
            fine = ci >= len(combos) - nfine
            solos = solo(names, fine)
            if any(not s["ops"] for s in solos):
                raise MachineryFailure("no storage access observed in a solo run: the yield points are gone")
            scheds = schedules_from_tlc(chk, list(names), solos, maxpre, tag="statement-level" if fine else "")
            if ci == 0:
                schedules_from_tlc(chk, list(names), solos, 2, shared=True)
            nall = len(scheds)
            if len(scheds) > cap:
                scheds = rng.sample(scheds, cap)
            nproc = tlc.NCPU
            jobs = [(list(names), scheds[i::nproc], solos, fine) for i in range(nproc) if scheds[i::nproc]]
            with ProcessPoolExecutor(max_workers=nproc) as ex:
                outs = list(ex.map(replay_chunk, jobs))
            n = sum(o[1] for o in outs)
            total += n
            if any("machinery" in b for o in outs for b in o[0]):
                raise MachineryFailure("the forced scheduler timed out three times (5 s, 30 s, 120 s) on a schedule (machine too loaded?)")
            for o in outs:
                for b in o[0][:20]:
                    chk.disagree(f"C06:{'+'.join(names)}:thread{b['thread']}:schedule={''.join(map(str, b['schedule']))[:120]}", b)
            chk.part("+".join(names) + ("[statement-level]" if fine else ""), storage_accesses=[len(s["ops"]) for s in solos], schedules_enumerated=nall,
                     schedules_replayed=n, max_preemptions=maxpre)
            if ci == 1:
                chk.sample({"workloads": names, "ops_thread1": solos[0]["ops"][:12], "schedule": scheds[0][:40]})
        chk.cov["traces_validated_against_impl"] = total
        chk.cov["evaluations"] = total
        chk.cov["distinct_nontrivial"] = total
        chk.cov["rule"] = ("schedules = TLC behaviours of JtThreads (all interleavings of the recorded storage-access sequences with "
                           "at most MaxPreempt preemptions; sampled down to a cap when more), each replayed with real threads; "
                           "every schedule is distinct")
        chk.assumptions += ["yield points are the calls into jaxtyping/_storage.py and into the two checking modules (sys.settrace), and "
                            "in the statement-level runs every line executed inside _storage.py; a context switch elsewhere "
                            "is equivalent to one at the next yield point because no other shared state exists",
                            "workloads are deterministic; their storage-access sequences are recorded in a solo run"]
    except MachineryFailure as e:
        return chk.abort(str(e))
    return chk.finish()
