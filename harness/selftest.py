"""setup_cmd: parse every specification module, run a tiny TLC job, import /repo."""
import glob
import os
import sys
import tempfile
import shutil

from . import tlc


def main():
    bad = 0
    mods = sorted(os.path.basename(p)[:-4] for p in glob.glob(os.path.join(tlc.SPEC_DIR, "*.tla")) if "_TTrace_" not in p)
    for m in mods:
        ok, out = tlc.sany(m)
        print(("ok   " if ok else "FAIL ") + m)
        if not ok:
            print(out[-2000:])
            bad += 1
    wd = tempfile.mkdtemp(prefix="verif_selftest_")
    try:
        cfg = os.path.join(wd, "t.cfg")
        tlc.write_cfg(cfg, spec="Spec", invariants=["AllTheorems"])
        r = tlc.run("MC_JtDims", cfg, wd, workers=2)
        print("TLC:", "ok" if r.ok else "FAIL", r.distinct, "states")
        if not r.ok:
            print(r.tail())
            bad += 1
    finally:
        shutil.rmtree(wd, ignore_errors=True)
    import jaxtyping
    print("jaxtyping from", jaxtyping.__file__)
    # parser round trip
    v = tlc.parse_tla('<<"MISMATCH", 3, [a |-> {1, 2}, b |-> <<>>, c |-> ("x" :> 1 @@ "y" :> 2), d |-> "s t"]>>')
    assert tlc.unset(v) == ["MISMATCH", 3, {"a": [1, 2], "b": [], "c": {"x": 1, "y": 2}, "d": "s t"}], v
    return 1 if bad else 0
