"""C08 - PyTree[L] accepts exactly the trees all of whose leaves match L."""
import json
import os
import random

from . import tlc
from .common import Check, MachineryFailure
from . import pytree_rows as P

QUICK = dict(Mode="leaf", Depth=2, Width=2, NodeKinds={"tuple", "dict"}, AtomSet={"int", "arr2", "arr3"},
             SmallDepth=1, LeafSet={"int", "tup2", "any", "arrA", "arrV", "uAi", "tupA", "ptA", "uis", "ptptA", "uAshV", "uisP", "uAiP", "uAshVP"},
             MemoSet={"empty", "a2", "v2"})
# leaves that are EQUAL but of different types (7 and 7.0), empty arrays (an axis bound to 0), wider containers
EQUAL_EMPTY = dict(Mode="leaf", Depth=1, Width=3, NodeKinds={"tuple", "list"}, AtomSet={"int", "flt", "arr0", "arr3"},
                   SmallDepth=1, LeafSet={"int", "arrA", "uAi", "ptA", "ptI", "any", "arrV"}, MemoSet={"empty", "a0", "a3"})
# registered nodes that are themselves array-like (leaves for array leaf types over Any, containers otherwise)
ARRAY_NODES = dict(Mode="leaf", Depth=2, Width=2, NodeKinds={"tuple", "acust"}, AtomSet={"int", "arr2", "arr3"}, SmallDepth=1,
                   LeafSet={"arrAnyA", "arrAnyV", "ptAnyA", "uAnyAi", "arrA", "any", "int"}, MemoSet={"empty", "a2", "a3"})
THOROUGH = [
    dict(Mode="leaf", Depth=2, Width=2, NodeKinds={"tuple", "list", "dict"}, AtomSet={"int", "str", "arr2", "arr3"},
         SmallDepth=1, LeafSet={"int", "str", "tup2", "any", "arrA", "arrV", "uAi", "tupA", "ptA", "uis", "ptptA", "ptI", "utA"},
         MemoSet={"empty", "a2", "a3", "v2"}),
    dict(Mode="leaf", Depth=2, Width=2, NodeKinds={"tuple", "nt", "cust"}, AtomSet={"int", "arr2", "arr2i", "arr23"},
         SmallDepth=1, LeafSet={"int", "any", "arrA", "arrAi", "arrV", "arrBV", "uAV", "ptA", "arrAny"},
         MemoSet={"empty", "a2", "bv1"}),
    dict(Mode="leaf", Depth=3, Width=2, NodeKinds={"tuple"}, AtomSet={"int", "arr2"},
         SmallDepth=1, LeafSet={"int", "tup2", "arrA", "uAi", "ptA"}, MemoSet={"empty", "a3"}),
]


def bare_and_deep(chk, n, seed):
    """bare PyTree accepts everything; random trees of depth <= 4 / width <= 3 with all node kinds."""
    from . import render as R
    rng = random.Random(seed)
    kinds = ["tuple", "list", "dict", "nt", "cust", "none"]
    atoms = [{"k": "int", "c": [], "keys": [], "shape": [], "dt": ""}, {"k": "str", "c": [], "keys": [], "shape": [], "dt": ""},
             {"k": "arr", "c": [], "keys": [], "shape": [2], "dt": "f"}, {"k": "arr", "c": [], "keys": [], "shape": [3], "dt": "f"},
             {"k": "arr", "c": [], "keys": [], "shape": [2, 3], "dt": "f"}, {"k": "arr", "c": [], "keys": [], "shape": [2], "dt": "i"}]

    def gen(d):
        if d == 0 or rng.random() < .3:
            return rng.choice(atoms)
        k = rng.choice(kinds)
        if k == "none":
            return {"k": "none", "c": [], "keys": [], "shape": [], "dt": ""}
        n_ = 2 if k == "nt" else rng.randint(1, 2) if k == "cust" else rng.randint(0, 3)
        return {"k": k, "c": [gen(d - 1) for _ in range(n_)], "keys": ["k1", "k2", "k3"][:n_] if k == "dict" else [],
                "shape": [], "dt": ""}
    fac_leafs = json.load(open(os.path.join(chk.workdir, "ptfactors_quick.json")))["leafs"]
    S0 = {"pieces": [], "dots": "none", "str": ""}
    ST = {"pieces": ["T"], "dots": "none", "str": "T"}
    out = os.path.join(chk.workdir, "deep.ndjson")
    with open(out, "w") as f:
        for i in range(n):
            x = gen(4)
            L = rng.choice(fac_leafs)
            pre = rng.choice([{"single": {}, "variadic": {}, "pytree": {}}, {"single": {"a": 2}, "variadic": {}, "pytree": {}},
                              {"single": {"a": 3}, "variadic": {"v": {"b": False, "s": [2]}}, "pytree": {}}])
            bare = rng.random() < .1
            S = rng.choice([S0, S0, ST])
            h = P.exec_row(pre, L, S, x, rng, bare=bare)
            row = {"id": i, "bare": bare, "L": L, "S": S, "x": x, "pre": h["pre"], "args": {}, "res": h["res"],
                   "post": h["post"], "either": False}
            if not h["est"] or h["pre"] != pre:
                row["prefail"] = True
            f.write(json.dumps(row, separators=(",", ":")) + "\n")
    # split for parallel validation
    lines = open(out).read().splitlines()
    files = []
    for j in range(tlc.NCPU):
        p = os.path.join(chk.workdir, f"deep_{j}.ndjson")
        open(p, "w").write("\n".join(lines[j::tlc.NCPU]) + ("\n" if lines[j::tlc.NCPU] else ""))
        files.append(p)
    from .common import validate_rows
    mism, total = validate_rows(chk, "Rows_JtPyTree", files, name="deep", heap="4g")
    chk.cov["traces_validated_against_impl"] += total
    chk.cov["evaluations"] += total
    want = dict(mism)
    for l in lines:
        r = json.loads(l)
        if r["id"] in want or "prefail" in r:
            chk.disagree(f"C08:deep:L={json.dumps(r['L'])[:120]}:S={r['S']['str']}:bare={r['bare']}:x={P.tree_str(r['x'])}",
                         {"row": r, "spec_expected": want.get(r["id"])})
    chk.part("deep_random_trees", rows=total)


def main(tier):
    chk = Check("C08", tier)
    try:
        n, nb = P.run_table(chk, "C08", QUICK, "quick", P.LEAF_INVS)
        n1, nb1 = P.run_table(chk, "C08", EQUAL_EMPTY, "equal_empty", P.LEAF_INVS)
        n2_, nb2_ = P.run_table(chk, "C08", ARRAY_NODES, "array_nodes", P.LEAF_INVS)
        nb += nb1 + nb2_
        bare_and_deep(chk, 3000 if tier == "quick" else 40000, chk.seed)
        if tier == "thorough":
            from . import suite
            suite.validate_suite_pytrees(chk, "C08")      # the PyTree checks of the repository's own tests
            for i, u in enumerate(THOROUGH):
                n2, nb2 = P.run_table(chk, "C08", u, f"thorough{i}", P.LEAF_INVS)
                nb += nb2
        chk.cov["distinct_nontrivial"] = nb
        chk.cov["exhaustive"] = True
        chk.cov["rule"] = ("every (context, leaf type, structure spec in {none,'T'}, tree) row of the MC_JtPyTree universe "
                           "(all trees of depth<=2, width<=2 over the stated node kinds and atoms; a second universe with equal-but-differently-"
                           "typed leaves, empty arrays and width-3 containers; a third with registered nodes that are array-like and array "
                           "leaf types over Any; unions in both spellings) executed on the code and "
                           "re-decided by TLC; plus random trees of depth<=4 / width<=3 over all node kinds and bare PyTree; "
                           "non-trivial = accepted rows that created bindings")
        chk.cov["constants"] = {nm: {k: sorted(v) if isinstance(v, set) else v for k, v in u.items()}
                                for nm, u in (("quick", QUICK), ("equal_empty", EQUAL_EMPTY), ("array_nodes", ARRAY_NODES))}
        chk.assumptions += ["JAX's tree_util defines what the structure of a real tree is (abstracter)",
                            "leaf types are checked by the bundled typeguard as in the implementation; the catalogue of "
                            "leaf types is finite (see LeafCatalogue)",
                            "structured inner PyTrees as leaf types are excluded (no documented meaning for discovery)"]
    except MachineryFailure as e:
        return chk.abort(str(e))
    return chk.finish()
