r"""C15 - nested, union, TypeVar and scalar annotations obey the documented laws.

TLC (Rows_JtDtypes over JtDtypes + JtArray) decides, for every ordered pair of categories and pair
of dim strings, whether D2[D1[A,s1],s2] must be an error (empty intersection, two multi-axis
specifiers) and otherwise the acceptance vector over (dtype class, shape) probes of the documented
right-hand side (D1 /\ D2)[A, 's2 s1']; and whether a Python scalar type survives. Union / TypeVar
/ alias laws are identities between two annotations that are both built for real and compared by
acceptance vector."""
import itertools
import json
import os
import random
import typing
from concurrent.futures import ProcessPoolExecutor

from . import tlc
from .common import Check, MachineryFailure, validate_rows
from .c12 import T

A = lambda n: T([], "ident", n)
DIMS = {"?a": [T(["?"], "ident", "a")], "*?v b": [T(["*", "?"], "ident", "v"), A("b")],
        "#d=3": [T(["#", "="], "int", v=3)], "*d=v": [T(["*", "="], "ident", "v")], "d=#a b": [T(["=", "#"], "ident", "a"), A("b")],
        "": [], "a": [A("a")], "b a": [A("b"), A("a")], "*v": [T(["*"], "ident", "v")], "... a": [T([], "dots"), A("a")],
        "2": [T([], "int", v=2)], "#a": [T(["#"], "ident", "a")], "a a": [A("a"), A("a")], "_ 3": [T(["_"], "empty"), T([], "int", v=3)]}


def probe_set():
    import numpy as np
    import ml_dtypes
    dts = [("bool", "bool", np.bool_), ("uint", "uint8", np.uint8), ("int", "int32", np.int32), ("int", "int64", np.int64),
           ("float", "float16", np.float16), ("float", "float32", np.float32), ("float", "bfloat16", ml_dtypes.bfloat16),
           ("complex", "complex64", np.complex64), ("float", "float8_e5m2", ml_dtypes.float8_e5m2)]
    shapes = [(), (2,), (3, 2), (2, 2), (2, 3, 2)]
    return [({"cls": {"kind": k, "name": n, "chars": list(n)}, "shape": list(s)}, np.zeros(s, dtype=t)) for k, n, t in dts for s in shapes]


def nest_worker(args):
    pairs, dimpairs, out_path, id0 = args
    import numpy as np
    import jaxtyping
    from . import render as R
    probes = probe_set()
    pj = [p[0] for p in probes]
    rid = id0
    with open(out_path, "w") as f:
        for d1, d2 in pairs:
            D1, D2 = getattr(jaxtyping, d1), getattr(jaxtyping, d2)
            for s1, s2 in dimpairs:
                row = {"id": rid, "kind": "nest", "d1": d1, "d2": d2, "s1": DIMS[s1], "s2": DIMS[s2], "probes": pj, "vec": [],
                       "desc": f"{d2}[{d1}[A,'{s1}'],'{s2}']"}
                try:
                    ann = D2[D1[np.ndarray, s1], s2]
                    row["build"] = "ok"
                except ValueError:
                    row["build"] = "ValueError"
                except BaseException as e:  # noqa
                    row["build"] = "Exc:" + type(e).__name__
                if row["build"] == "ok":
                    vec = []
                    for _, arr in probes:
                        vec.append(R.verdict(lambda: isinstance(arr, ann)))
                    row["vec"] = vec
                    # a third level must behave like the two-level annotation it extends
                    try:
                        ann3 = jaxtyping.Shaped[ann, ""]
                        v3 = [R.verdict(lambda: isinstance(arr, ann3)) for _, arr in probes]
                        if v3 != vec:
                            row["vec"] = ["L3:" + x for x in v3]
                    except BaseException as e:  # noqa
                        row["build"] = "Exc3:" + type(e).__name__
                f.write(json.dumps(row, separators=(",", ":")) + "\n")
                rid += 1
    return rid - id0


def identities():
    """laws whose two sides can both be built for real: union distribution, TypeVar, aliases"""
    import numpy as np
    import jax
    import jax.numpy as jnp
    import jaxtyping
    from jaxtyping import Float, Int, Shaped, Key, Array, ArrayLike, Scalar, ScalarLike, PRNGKeyArray
    from . import render as R

    class Duck:
        def __init__(self, shape, dtype):
            self.shape, self.dtype = shape, dtype
    vals = [np.zeros((2, 3), np.float32), np.zeros((2,), np.float32), np.zeros((2, 3), np.int32), jnp.zeros((2, 3)), jnp.zeros((2,), jnp.int32),
            jnp.zeros(()), jnp.float32(1.0), np.float32(1.0), np.zeros(()), 1, 1.5, True, 1j, "s", None, Duck((2, 3), "float32"), [1.0, 2.0],
            jax.random.key(0), jax.random.PRNGKey(0), jnp.zeros((), jnp.int32),
            np.float64(1.5), np.complex128(1j), np.int64(3), np.zeros((2, 3), np.float32).view(type("SubArr", (np.ndarray,), {}))]
    vec = lambda ann: [R.verdict(lambda: R.matches(v, ann)) for v in vals]
    TB = typing.TypeVar("TB", bound=np.ndarray)
    TC = typing.TypeVar("TC", np.ndarray, jax.Array)
    TF_ = typing.TypeVar("TF_")
    # constraints that are themselves unions (both spellings)
    TCU = typing.TypeVar("TCU", typing.Union[np.ndarray, Duck], jax.Array)
    TCU2 = typing.TypeVar("TCU2", np.ndarray | Duck, jax.Array)
    out = []

    def law(name, lhs, rhs):
        try:
            l = vec(lhs())
        except BaseException as e:  # noqa
            l = ["build:" + type(e).__name__]
        try:
            r = vec(rhs())
        except BaseException as e:  # noqa
            r = ["build:" + type(e).__name__]
        out.append({"law": name, "lhs": l, "rhs": r})
    for D, dn in ((Float, "Float"), (Int, "Int"), (Shaped, "Shaped")):
        for s in ("a b", "...", "", "a"):
            law(f"union:{dn}[Union[ndarray,Array],'{s}']", lambda: D[typing.Union[np.ndarray, jax.Array], s],
                lambda: typing.Union[D[np.ndarray, s], D[jax.Array, s]])
            law(f"union|:{dn}[ndarray|Array,'{s}']", lambda: D[np.ndarray | jax.Array, s], lambda: typing.Union[D[np.ndarray, s], D[jax.Array, s]])
            law(f"typevar-bound:{dn}[TB,'{s}']", lambda: D[TB, s], lambda: D[np.ndarray, s])
            law(f"typevar-constraints:{dn}[TC,'{s}']", lambda: D[TC, s], lambda: typing.Union[D[np.ndarray, s], D[jax.Array, s]])
            law(f"typevar-union-constraint:{dn}[TCU,'{s}']", lambda: D[TCU, s],
                lambda: typing.Union[D[np.ndarray, s], D[Duck, s], D[jax.Array, s]])
            law(f"typevar-union-constraint|:{dn}[TCU2,'{s}']", lambda: D[TCU2, s],
                lambda: typing.Union[D[np.ndarray, s], D[Duck, s], D[jax.Array, s]])
            law(f"typevar-free:{dn}[T,'{s}']", lambda: D[TF_, s], lambda: D[typing.Any, s])
            law(f"union-scalar:{dn}[Union[ndarray,float,int],'{s}']", lambda: D[typing.Union[np.ndarray, float, int], s],
                lambda: (lambda parts: typing.Union[tuple(parts)] if len(parts) > 1 else parts[0])(
                    [D[np.ndarray, s]] + ([float] if (s in ("...", "") and dn in ("Float", "Shaped")) else [])
                    + ([int] if (s in ("...", "") and dn in ("Int", "Shaped")) else [])))
    law("alias:Scalar", lambda: Scalar, lambda: Shaped[Array, ""])
    law("alias:ScalarLike", lambda: ScalarLike, lambda: Shaped[ArrayLike, ""])
    law("alias:PRNGKeyArray", lambda: PRNGKeyArray, lambda: typing.Union[Key[Array, ""], jaxtyping.UInt32[Array, "2"]])
    law("alias-nested:Shaped[PRNGKeyArray,'2']", lambda: Shaped[PRNGKeyArray, "2"],
        lambda: typing.Union[Key[Array, "2"], jaxtyping.UInt32[Array, "2 2"]])
    law("alias-nested:Int[Scalar,'']", lambda: Int[Scalar, ""], lambda: Int[Array, ""])
    return out


def main(tier):
    chk = Check("C15", tier)
    try:
        import jaxtyping
        cats = sorted(n for n in dir(jaxtyping) if isinstance(getattr(jaxtyping, n), type)
                      and issubclass(getattr(jaxtyping, n), jaxtyping.AbstractDtype) and n != "AbstractDtype")
        pairs = list(itertools.product(cats, cats))
        names = list(DIMS)
        rng = random.Random(chk.seed)
        allpairs = list(itertools.product(names, names))
        dimpairs = [("a", "b a"), ("", "a"), ("*v", "a"), ("... a", "*v"), ("2", "#a"), ("a a", "")]
        if tier == "thorough":
            dimpairs = allpairs
        else:
            dimpairs += rng.sample(allpairs, 4)
        nproc = tlc.NCPU
        per = len(dimpairs)
        jobs, id0 = [], 0
        for i in range(nproc):
            part = pairs[i::nproc]
            jobs.append((part, dimpairs, os.path.join(chk.workdir, f"nest_{i}.ndjson"), id0))
            id0 += len(part) * per
        with ProcessPoolExecutor(max_workers=nproc) as ex:
            n = sum(ex.map(nest_worker, jobs))
        files = [j[2] for j in jobs]
        # scalars
        rows = []
        rid = 10_000_000
        import numpy as np
        for cat in cats:
            D = getattr(jaxtyping, cat)
            for py, pt in (("bool", bool), ("int", int), ("float", float), ("complex", complex)):
                for dn in ("", "...", "*v", "a", "*v a", "... 2"):
                    allvar = all(("*" in t["mods"] or t["base"]["k"] == "dots") for t in DIMS.get(dn, [])) if dn in DIMS else \
                        dn in ("", "...", "*v")
                    if dn == "*v a" or dn == "... 2" or dn == "a":
                        allvar = False
                    try:
                        r = D[pt, dn]
                        b = "scalar" if r is pt else "other:" + repr(r)[:40]
                    except ValueError:
                        b = "ValueError"
                    except BaseException as e:  # noqa
                        b = "Exc:" + type(e).__name__
                    rows.append({"id": rid, "kind": "scalar", "cat": cat, "py": py, "allvar": allvar, "build": b,
                                 "desc": f"{cat}[{py},'{dn}']"})
                    rid += 1
        sp = os.path.join(chk.workdir, "scalars.ndjson")
        with open(sp, "w") as f:
            for r in rows:
                f.write(json.dumps(r) + "\n")
        mism, total = validate_rows(chk, "Rows_JtDtypes", files + [sp], name="laws", canary_field="build", heap="4g")
        want = dict(mism)
        okb = 0
        for fp in files + [sp]:
            for line in open(fp):
                r = json.loads(line)
                okb += r.get("build") == "ok"
                if r["id"] in want:
                    chk.disagree(f"C15:{r['kind']}:{r['desc']}:build={r['build']}", {"row": {k: v for k, v in r.items() if k != 'probes'},
                                                                                   "spec_expected": want[r["id"]]})
        ids = identities()
        for l in ids:
            if l["lhs"] != l["rhs"]:
                chk.disagree(f"C15:law:{l['law']}", l)
        chk.cov["traces_validated_against_impl"] = total + len(ids)
        chk.cov["evaluations"] = total + len(ids)
        chk.cov["distinct_nontrivial"] = okb
        chk.cov["exhaustive"] = tier == "thorough"
        chk.cov["rule"] = ("all %d ordered pairs of exported categories x %d dim-string pairs (nesting, two and three levels deep), "
                           "all categories x 4 Python scalar types x 6 dim strings, %d union / TypeVar / alias identities over 20 probe "
                           "values; non-trivial = nestings that build" % (len(pairs), per, len(ids)))
        chk.sample({"nest": "Shaped[Float[ndarray,'b a'],'a'] vs (Float/\\Shaped)[ndarray,'a b a']"})
        chk.sample(ids[0])
        chk.assumptions += ["intersection of user regex categories is excluded (syntactic in the code, unspecified in the docs)",
                            "meaning compared through 45 (dtype, shape) probes, not symbolically"]
    except MachineryFailure as e:
        return chk.abort(str(e))
    return chk.finish()
