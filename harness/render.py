"""Renderers (abstract value of the specification -> real Python object) and abstracters
(real state -> abstract value). No semantics here: the meaning of a token / tree / memo is
defined in /verif/spec only."""
import io
import re
import contextlib
import warnings

warnings.simplefilter("ignore")
import numpy as np  # noqa: E402

import jaxtyping  # noqa: E402
from jaxtyping import AnnotationError, Float, jaxtyped  # noqa: E402

try:
    from jaxtyping import _storage as _st  # second, finer observation (optional)
except Exception:  # pragma: no cover
    _st = None


# ---------------------------------------------------------------- dim tokens
def expr_str(e, top=True):
    k = e[0]
    if k == "i":
        return str(e[1])
    if k == "n":
        return e[1]
    if k == "a":
        return "{" + e[1] + "}"
    if k in ("min", "max"):
        return f"{k}({expr_str(e[1])},{expr_str(e[2])})"
    s = f"{expr_str(e[1], False)}{k}{expr_str(e[2], False)}"
    return s if top else "(" + s + ")"


def tok_str(t, doc="d"):
    out = ""
    for m in t["mods"]:
        out += (doc + "=") if m == "=" else m
    b = t["base"]
    k = b["k"]
    if k == "ident":
        out += b["nm"]
    elif k == "int":
        out += str(b["v"])
    elif k == "sym":
        out += expr_str(b["e"])
    elif k == "dots":
        out += "..."
    elif k == "comma":
        out += "a,b"
    elif k == "trailhash":
        out += "a#"
    return out


def dim_str(toks):
    return " ".join(tok_str(t) for t in toks)


_ann_cache = {}


def array_ann(dimstr, dtype=Float, arr=np.ndarray):
    key = (dimstr, dtype, arr)
    a = _ann_cache.get(key)
    if a is None:
        a = _ann_cache[key] = dtype[arr, dimstr]
    return a


def array_ann_nested(toks, split, dtype=Float, arr=np.ndarray):
    """The same specification written by nesting: dtype[dtype[arr, inner], outer] (docs: the
    outer dims are prepended). split = number of outer tokens."""
    key = ("nested", dim_str(toks), split, dtype, arr)
    a = _ann_cache.get(key)
    if a is None:
        inner = dtype[arr, dim_str(toks[split:])]
        a = _ann_cache[key] = dtype[inner, dim_str(toks[:split])]
    return a


_zeros = {}


def zeros(shape, dtype=np.float32):
    key = (tuple(shape), dtype)
    a = _zeros.get(key)
    if a is None:
        a = _zeros[key] = np.zeros(tuple(shape), dtype=dtype)
    return a


class Duck:
    """has shape and dtype, is no ndarray"""

    def __init__(self, shape, dtype="float32"):
        self.shape, self.dtype = tuple(shape), dtype


def make_obj(obj):
    """obj: {"inst":bool,"dtin":bool,"shape":[..]} for an annotation Float[np.ndarray, ...]"""
    if not obj["inst"]:
        return Duck(obj["shape"])
    if not obj["dtin"]:
        return zeros(obj["shape"], np.int32)
    return zeros(obj["shape"])


# ---------------------------------------------------------------- observing the context
_leaf_re = re.compile(r"^\(Leaf (\d+) in structure (.*?)\) (.*)$", re.S)
_del_re = re.compile(r"^~~delete~~\((.*?)\) (.*)$", re.S)


def _to_int(x):
    return int(x)


def observe_memo(want_args=False):
    """The current context as the specification sees it. Uses the storage module when it is
    where it is today, otherwise the text of print_bindings() (public API; the
    was-broadcastable bit and the arguments are then not observable)."""
    if _st is not None and hasattr(_st, "get_shape_memo"):
        single, variadic, pytree, args = _st.get_shape_memo()
        m = {"single": {k: _to_int(v) for k, v in single.items()},
             "variadic": {k: {"b": bool(b), "s": [int(i) for i in s]} for k, (b, s) in variadic.items()}}
        if want_args:
            m["pytree"] = {k: v for k, v in pytree.items()}
            m["args"] = {k: v for k, v in args.items() if isinstance(v, int) and not isinstance(v, bool)}
        return m, "storage"
    buf = io.StringIO()
    with contextlib.redirect_stdout(buf):
        jaxtyping.print_bindings()
    return parse_bindings(buf.getvalue()), "print_bindings"


def parse_bindings(text):
    single, variadic, pytree = {}, {}, {}
    section = None
    for line in text.splitlines():
        if line.startswith("The current values for each jaxtyping axis"):
            section = "axis"
            continue
        if line.startswith("The current values for each jaxtyping PyTree"):
            section = "tree"
            continue
        if "=" not in line or section is None:
            continue
        k, _, v = line.rpartition("=")
        if section == "axis":
            v = v.strip()
            if v.startswith("("):
                variadic[k] = {"b": None, "s": [int(x) for x in re.findall(r"-?\d+", v)]}
            else:
                single[k] = int(v)
        else:
            pytree[k] = v
    return {"single": single, "variadic": variadic, "pytree": pytree}


def stack_depth():
    if _st is None:
        return None
    ss = getattr(_st, "_shape_storage", None)
    if ss is None:
        return None
    return len(getattr(ss, "memo_stack", []))


def flags():
    out = {}
    if _st is not None:
        try:
            out["flatten"] = bool(_st.get_treeflatten_memo())
        except Exception as e:  # noqa
            out["flatten"] = f"Exc:{type(e).__name__}"
        tp = getattr(_st, "_treepath_storage", None)
        out["label"] = getattr(tp, "value", None) if tp is not None else None
    return out


# ---------------------------------------------------------------- contexts
@jaxtyped(typechecker=None)
def in_call_context(n, run):
    """A checking context that also has call arguments: `{n}` in symbolic axes."""
    return run()


def verdict(fn):
    """Run fn() -> 'T' / 'F' / 'E' (AnnotationError) / 'Exc:<class>'"""
    try:
        return "T" if fn() else "F"
    except AnnotationError:
        return "E"
    except Exception as e:  # noqa
        return "Exc:" + type(e).__name__


def matches(value, hint):
    """isinstance for hints that may be unions: `isinstance(x, typing.Union[A, B])` does SUBCLASS tests on type(x) and
    never asks A / B's __instancecheck__; a runtime typechecker asks each member in turn."""
    import types
    import typing
    if typing.get_origin(hint) in (typing.Union, types.UnionType):
        return any(matches(value, m) for m in typing.get_args(hint))
    return isinstance(value, hint)


def norm_memo(m):
    """JSON emitted by TLC prints an empty function as []"""
    return {"single": dict(m["single"]) if m["single"] else {},
            "variadic": {k: {"b": v["b"], "s": list(v["s"])} for k, v in (m["variadic"] or {}).items()}
            if m["variadic"] else {}}
