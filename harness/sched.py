"""Forced scheduler: runs real workloads in real threads and lets exactly one thread pass each
storage access, in the order given by a schedule (a TLC behaviour of JtThreads).

Yield points need no patching: every `call` event whose code object lives in
jaxtyping/_storage.py is one (sys.settrace per thread)."""
import io
import os
import sys
import threading
import contextlib
import warnings

warnings.simplefilter("ignore")


def storage_file():
    import jaxtyping._storage as st
    return os.path.realpath(st.__file__)


class Controller:
    timeout = 5.0

    def __init__(self, schedule):
        self.schedule = list(schedule)
        self.pos = 0
        self.cv = threading.Condition()
        self.done = set()
        self.counts = {}
        self.ops = {}
        self.stuck = False

    def _skip(self):
        while self.pos < len(self.schedule) and self.schedule[self.pos] in self.done:
            self.pos += 1

    def yield_point(self, tid, name):
        with self.cv:
            self.counts[tid] = self.counts.get(tid, 0) + 1
            self.ops.setdefault(tid, []).append(name)
            while True:
                self._skip()
                if self.pos >= len(self.schedule) or self.schedule[self.pos] == tid or self.stuck:
                    break
                if not self.cv.wait(timeout=self.timeout):
                    self.stuck = True
                    self.cv.notify_all()
                    break
            if self.pos < len(self.schedule):
                self.pos += 1
            self.cv.notify_all()

    def finish(self, tid):
        with self.cv:
            self.done.add(tid)
            self.cv.notify_all()


def package_dir():
    import jaxtyping
    return os.path.dirname(os.path.realpath(jaxtyping.__file__)) + os.sep


def run_threads(workloads, schedule, fine=False):
    """workloads: {tid: callable returning an observation}; returns ({tid: obs}, controller)
    fine=True: additionally every LINE executed inside jaxtyping/_storage.py is a yield point ("line"): the storage
    functions themselves are not atomic, a context switch can fall between two of their statements.
    Yield points: every call of a function defined in jaxtyping/_storage.py (named by the function)
    and every call of any other function of the jaxtyping package ("other": a pure preemption point,
    e.g. between the prefix and the suffix walk of one array check)."""
    sf = storage_file()
    pkg = package_dir()
    checkfiles = {os.path.join(pkg, "_array_types.py"), os.path.join(pkg, "_pytree_type.py")}
    ctl = Controller(schedule)
    results = {}

    def runner(tid, fn):
        def linetracer(frame, event, arg):
            if event == "line":
                ctl.yield_point(tid, "line")
            return linetracer

        def tracer(frame, event, arg):
            if event == "call":
                fn = frame.f_code.co_filename
                if fn == sf:
                    ctl.yield_point(tid, frame.f_code.co_name)
                    if fine:
                        return linetracer
                elif fn in checkfiles:
                    ctl.yield_point(tid, "other")
            return None
        sys.settrace(tracer)
        try:
            results[tid] = fn()
        except BaseException as e:  # noqa
            results[tid] = ["Exc:" + type(e).__name__ + ":" + str(e)[:100]]
        finally:
            sys.settrace(None)
            ctl.finish(tid)

    global _tso
    if _tso is None or sys.stdout is not _tso:     # install before any thread runs
        _tso = _ThreadStdout(sys.stdout)
        sys.stdout = _tso
    # the starting thread has itself used the library, and every worker runs in a COPY of its context
    # (contextvars.copy_context().run, as asyncio.to_thread / executors do): still nothing may be shared
    import contextvars
    from jaxtyping import jaxtyped as _jt
    with _jt("context"):
        pass
    ctxs = {tid: contextvars.copy_context() for tid in workloads}
    ths = [threading.Thread(target=ctxs[tid].run, args=(runner, tid, fn)) for tid, fn in workloads.items()]
    for t in ths:
        t.start()
    for t in ths:
        t.join(max(60.0, 6 * Controller.timeout))
    if any(t.is_alive() for t in ths):
        ctl.stuck = True            # not an observation of the library: the caller retries / reports a machinery failure
    return results, ctl


# ------------------------------------------------------------------ workloads
class _ThreadStdout:
    """sys.stdout replacement that keeps one buffer per thread (contextlib.redirect_stdout is
    process-wide and would itself be a cross-thread interference of the harness)"""

    def __init__(self, real):
        self.real = real
        self.loc = threading.local()

    def write(self, s):
        buf = getattr(self.loc, "buf", None)
        if buf is None:
            return self.real.write(s)
        buf.append(s)
        return len(s)

    def flush(self):
        self.real.flush()


_tso = None


def bindings_text():
    import jaxtyping
    global _tso
    if _tso is None or sys.stdout is not _tso:
        _tso = _ThreadStdout(sys.stdout)
        sys.stdout = _tso
    _tso.loc.buf = []
    try:
        jaxtyping.print_bindings()
        return "".join(_tso.loc.buf)
    finally:
        _tso.loc.buf = None


def make_workloads():
    import numpy as np
    from jaxtyping import Float, PyTree, jaxtyped, AnnotationError, TypeCheckError
    from typeguard import typechecked
    Z = lambda *s: np.zeros(s, np.float32)

    FA = Float[np.ndarray, "a"]
    VW = Float[np.ndarray, "*v #w"]
    QA = Float[np.ndarray, "?a"]
    TT = PyTree[QA, "T"]

    def w_call(k):
        @jaxtyped(typechecker=typechecked)
        def f(x: Float[np.ndarray, "a b"], y: Float[np.ndarray, "b"]):
            r = [isinstance(Z(k), FA), isinstance(Z(k + 1), FA), bindings_text()]
            return r

        def run():
            out = [f(Z(k, 2), Z(2))]
            try:
                f(Z(k, 2), Z(3))
                out.append("accepted")
            except TypeCheckError:
                out.append("rejected")
            out.append(bindings_text())
            return out
        return run

    def w_ctx(k):
        def run():
            out = []
            with jaxtyped("context"):
                out.append(isinstance(Z(k, 1), VW))
                out.append(isinstance(Z(k, 5), VW))
                out.append(isinstance(Z(k + 1, 5), VW))
                out.append(bindings_text())
            out.append(bindings_text())
            return out
        return run

    def w_tree(k):
        T = TT

        def run():
            out = []
            with jaxtyped("context"):
                out.append(isinstance((Z(k), Z(k + 1)), T))
                out.append(isinstance((Z(k), Z(k + 1)), T))
                out.append(isinstance((Z(k + 1), Z(k + 1)), T))
                out.append(isinstance((Z(k), Z(k + 1), Z(1)), T))
                try:
                    out.append(isinstance(Z(k), QA))
                except AnnotationError:
                    out.append("AnnErr")
                out.append(bindings_text())
            return out
        return run

    def w_small(k):
        def run():
            with jaxtyped("context"):
                return [isinstance(Z(k), FA), isinstance(Z(k + 1), FA)]
        return run

    ABA = Float[np.ndarray, "a *b a"]
    ADA = Float[np.ndarray, "a ... a"]

    def w_free(k):
        # checks outside every context are stateless - also while another thread is checking
        def run():
            return [isinstance(Z(k, 5, k), ABA), isinstance(Z(k, 5, k + 1), ABA), isinstance(Z(k + 1, k), ADA), bindings_text()]
        return run

    # ONE decorated function called by every thread (whatever the wrapper keeps per function is shared by them)
    @jaxtyped(typechecker=typechecked)
    def shared_fn(x: Float[np.ndarray, "a"], r) -> Float[np.ndarray, "a"]:
        return r

    def w_shared(k):
        def run():
            out = []
            for r in (Z(k), Z(k + 1), Z(k)):
                try:
                    out.append(shared_fn(Z(k), r) is r)
                except TypeCheckError:
                    out.append("rejected")
            return out
        return run

    return {"call": w_call, "ctx": w_ctx, "tree": w_tree, "small": w_small, "free": w_free, "shared": w_shared}
