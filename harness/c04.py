"""C04 - a failed or raising check binds nothing; a passing check is idempotent.

TLC: JtCheckFine (interruptible walk, fault between any two items, Commit/Rollback) proves
NothingBoundOnFailure and must refute it for the two broken rollback modes.
Binding: rows of an MC_JtArray universe executed on the code - plain, with a fault injected at
every call-out position (k-th access of `.shape`, k-th `__format__` of an {arg}; Exception and
BaseException), repeated when they pass, and followed by probe checks after a failure - and
re-decided by TLC (Rows_JtFault). The PyTree half of the property is bound by the same rows as
C08/C09 (harness.pytree_rows), run here with failing trees.
"""
import json
import os
from concurrent.futures import ProcessPoolExecutor

from . import tlc
from .common import Check, MachineryFailure, validate_rows

FINE_OK = dict(RollbackMode="always", MaxSize=2, Names={"a"}, VNames={"v"}, MaxLen=2, MaxVarRank=1)
FINE_SMALL = dict(MaxSize=1, Names={"a"}, VNames={"v"}, MaxLen=2, MaxVarRank=0)
BASE_U = dict(MaxSize=2, Names={"a"}, VNames={"v"}, MaxLen=2, MaxVarRank=1, SymIds={"argv", "ap1"},
              WithQ=False, WithTheorems=False)
FAULT_U = dict(MaxSize=1, Names={"a"}, VNames={"v"}, MaxLen=2, MaxVarRank=1, SymIds={"argvpa"},
               WithQ=False, WithTheorems=False)
THOROUGH_U = dict(MaxSize=2, Names={"a", "b"}, VNames={"v"}, MaxLen=2, MaxVarRank=1, SymIds={"argvpa", "apb"},
                  WithQ=False, WithTheorems=False)


class UserExc(Exception):
    pass


class UserBaseExc(BaseException):
    pass


def worker(args):
    fpath, mlo, mhi, out_path, id0, inject = args
    from . import render as R
    import numpy as np
    from jaxtyping import jaxtyped

    class FaultyArray(np.ndarray):
        """ndarray whose `shape` attribute raises on its k-th access"""
        _k = 0
        _cls = None
        _n = 0

        @property
        def shape(self):
            type(self)._n += 1
            if type(self)._n == type(self)._k:
                raise type(self)._cls("injected at shape access")
            return super().shape

    class FaultyInt:
        def __init__(self, v):
            self.v, self.k, self.cls, self.n = v, 0, None, 0

        def __format__(self, spec):
            self.n += 1
            if self.n == self.k:
                raise self.cls("injected at __format__")
            return str(self.v)

    @jaxtyped(typechecker=None)
    def ctx(n, v, run):
        return run()

    fac = json.load(open(fpath))
    memos = [R.norm_memo(m) for m in fac["memos"][mlo:mhi]]
    pairs = [p for p in fac["pairs"] if p["obj"]["inst"] and p["obj"]["dtin"]]
    # every third annotation is written by nesting (outer dims prepended to an inner annotation)
    anns = [R.array_ann_nested(p["toks"], 1) if (i % 3 == 1 and len(p["toks"]) >= 2)
            else R.array_ann_nested(p["toks"], 0) if (i % 3 == 2 and len(p["toks"]) >= 1)
            else R.array_ann(R.dim_str(p["toks"])) for i, p in enumerate(pairs)]
    names = [sorted({t["base"]["nm"] for t in p["toks"] if t["base"]["k"] == "ident"}) for p in pairs]
    rid = id0
    classes = [UserExc, UserBaseExc]

    def one(m, pi, mode, k, cls):
        """mode: None | 'shape' | 'format'"""
        p = pairs[pi]
        h = {"raised": False}
        vobj = FaultyInt(2)
        if mode == "format":
            vobj.k, vobj.cls = k, cls
        if mode == "shape":
            base = R.zeros(p["obj"]["shape"])
            obj = base.view(FaultyArray)
            FaultyArray._k, FaultyArray._cls, FaultyArray._n = 0, cls, 0
        else:
            obj = R.zeros(p["obj"]["shape"])

        def body():
            for nm, kk in m["single"].items():
                if not isinstance(R.zeros((kk,)), R.array_ann(nm)):
                    h["pre_fail"] = 1
            for nm, v in m["variadic"].items():
                if not isinstance(R.zeros(v["s"]), R.array_ann(("*#" if v["b"] else "*") + nm)):
                    h["pre_fail"] = 1
            pre, _ = R.observe_memo()
            h["pre"] = pre
            if mode == "shape":
                FaultyArray._k, FaultyArray._n = k, 0
            vobj.n = 0
            try:
                h["res"] = R.verdict(lambda: isinstance(obj, anns[pi]))
            except (UserBaseExc,) as e:
                h["res"], h["raised"] = "Raised:UserBaseExc", True
            if h["res"] == "Exc:UserExc":
                h["res"], h["raised"] = "Raised:UserExc", True
            if mode == "shape":
                FaultyArray._k = 0
            vobj.k = 0
            h["post"], _ = R.observe_memo()
            h["again"] = {"res": "-", "post": {"single": {}, "variadic": {}}}
            h["probes"] = []
            if h["res"] == "T":
                r2 = R.verdict(lambda: isinstance(obj, anns[pi]))
                h["again"] = {"res": r2, "post": R.observe_memo()[0]}
            else:
                for nm in names[pi]:
                    isvar = any(t["base"]["nm"] == nm and "*" in t["mods"] for t in p["toks"])
                    if isvar:
                        r3 = R.verdict(lambda: isinstance(R.zeros((7, 7)), R.array_ann("*" + nm)))
                    else:
                        r3 = R.verdict(lambda: isinstance(R.zeros((7,)), R.array_ann(nm)))
                    h["probes"].append({"nm": nm, "var": isvar, "res": r3})
        ctx(2, vobj, body)
        row = {"id": None, "toks": p["toks"], "obj": p["obj"], "pre": h["pre"], "args": {"n": 2, "v": 2},
               "lab": "", "fl": False, "res": h["res"], "raised": h["raised"], "post": h["post"],
               "again": h["again"], "probes": h["probes"], "fault": [mode or "none", k, cls.__name__ if cls else ""]}
        if "pre_fail" in h or R.norm_memo(h["pre"]) != m:
            row["prefail"] = True
        return row

    nfault = 0
    with open(out_path, "w") as f:
        for m in memos:
            for pi in range(len(pairs)):
                rows = [one(m, pi, None, 0, None)]
                if inject:
                    for cls in classes:
                        for k in range(1, 8):
                            r = one(m, pi, "shape", k, cls)
                            if not r["raised"]:
                                break
                            rows.append(r)
                    if any(t["base"]["k"] == "sym" for t in pairs[pi]["toks"]):
                        for cls in classes:
                            for k in range(1, 4):
                                r = one(m, pi, "format", k, cls)
                                if not r["raised"]:
                                    break
                                rows.append(r)
                for r in rows:
                    r["id"] = rid
                    rid += 1
                    nfault += r["raised"]
                    f.write(json.dumps(r, separators=(",", ":")) + "\n")
    return rid - id0, nfault


def rows_for(chk, consts, tag, inject):
    wd = chk.workdir
    fpath = os.path.join(wd, f"factors_{tag}.json")
    ecfg = os.path.join(wd, f"emit_{tag}.cfg")
    tlc.write_cfg(ecfg, init="EmitInit", next="EmitNext", constants=consts)
    er = tlc.run("Emit_JtArray", ecfg, wd, workers=1, env={"VERIF_OUT": fpath})
    if not er.ok or not os.path.exists(fpath):
        raise MachineryFailure("factor emission failed:\n" + er.tail())
    fac = json.load(open(fpath))
    nm = len(fac["memos"])
    nproc = min(tlc.NCPU, nm)
    jobs = [(fpath, i * nm // nproc, (i + 1) * nm // nproc, os.path.join(wd, f"rows_{tag}_{i}.ndjson"),
             i * 50_000_000, inject) for i in range(nproc)]
    with ProcessPoolExecutor(max_workers=nproc) as ex:
        outs = list(ex.map(worker, jobs))
    files = [j[3] for j in jobs]
    nrows, nfault = sum(o[0] for o in outs), sum(o[1] for o in outs)
    mism, total = validate_rows(chk, "Rows_JtFault", files, name=tag)
    if total != nrows:
        raise MachineryFailure(f"validated {total} of {nrows}")
    chk.cov["traces_validated_against_impl"] += total
    chk.cov["evaluations"] += total
    want = dict(mism)
    from . import render as R
    for fp in files:
        for line in open(fp):
            if '"prefail"' in line:
                r = json.loads(line)
                chk.disagree(f"C04:prestate:{json.dumps(r['pre'], sort_keys=True)}", {"row": r})
            if want:
                r = json.loads(line)
                if r["id"] in want:
                    key = (f"C04:arr:{R.dim_str(r['toks'])}:shape={r['obj']['shape']}:fault={r['fault']}"
                           f":pre={json.dumps(r['pre'], sort_keys=True)}")
                    chk.disagree(key, {"row": r, "spec_expected": want[r["id"]], "universe": tag})
    for line in open(files[0]):
        r = json.loads(line)
        if r["raised"] and r["pre"]["single"]:
            chk.sample(r, limit=3)
            break
    chk.part(f"rows[{tag}]", rows=nrows, with_fault_raised=nfault)
    for fp in files:
        os.remove(fp)
    return nrows, nfault


def nested_rollback(chk):
    """every PyTree check at ANY nesting depth (union member, is_leaf predicate during the enclosing flatten, leaf check)
    recorded with the context before / after; TLC applies the Rollback theorem to each (Rows_JtRollback)"""
    import typing
    import itertools
    import numpy as np
    from jaxtyping import Float, PyTree, jaxtyped, AnnotationError
    from jaxtyping import _pytree_type as pt
    from . import jt_verif_plugin as plug
    from . import render as R
    from .common import validate_rows
    rows = []
    depth = [0]
    orig = pt._MetaPyTree.__instancecheck__
    cur = {}

    def snap():
        try:
            m, _, _ = plug._pmemo()
            return m
        except Exception:  # noqa - outside the vocabulary
            return None

    def wrapped(cls, obj):
        if not hasattr(cls, "leaftype") or obj is None:
            return orig(cls, obj)
        pre, fb = snap(), R.flags()
        depth[0] += 1
        res = "?"
        try:
            out = orig(cls, obj)
            res = "T" if out else "F"
            return out
        except AnnotationError:
            res = "E"
            raise
        except BaseException as e:  # noqa
            res = "Exc:" + type(e).__name__
            raise
        finally:
            depth[0] -= 1
            post = snap()
            if pre is not None and post is not None:
                fa = R.flags()
                norm = lambda f: {"flatten": bool(f.get("flatten")), "label": f.get("label") or ""}
                rows.append({"id": len(rows), "depth": depth[0], "hint": cls.__name__[:100], "res": res, "pre": pre, "post": post,
                             "flags_before": norm(fb), "flags_after": norm(fa), "case": cur.get("desc", "")})
    A = Float[np.ndarray, "a"]
    Z = lambda *s: np.zeros(s, np.float32)
    hints = {
        "U[PT[int,S],str]": PyTree[typing.Union[PyTree[int, "S"], str]],
        "U[PT[int,S],str,int]": PyTree[typing.Union[PyTree[int, "S"], str, int]],
        "U[str,PT[int,S]]": PyTree[typing.Union[str, PyTree[int, "S"]]],
        "U[PT[A,S],int]": PyTree[typing.Union[PyTree[A, "S"], int]],
        "PT[PT[int,S]]": PyTree[PyTree[int, "S"]],
        "PT[U[PT[A],str]],T": PyTree[typing.Union[PyTree[A], str], "T"],
        "tuple[PT[int,S],int]": PyTree[typing.Tuple[PyTree[int, "S"], int]],
    }
    atoms = [1, "s", Z(2), Z(3), None, ()]
    trees = list(atoms) + [(x, y) for x, y in itertools.product(atoms, repeat=2)] + [((1, 2), "s"), ((1, "s"), 2), [(1,), ("s",)],
                                                                                     {"k": (1, 2), "j": "s"}, ((Z(2), Z(3)), 1), ((Z(2), Z(2)), "s")]
    pt._MetaPyTree.__instancecheck__ = wrapped
    try:
        for (hn, h), tr in itertools.product(hints.items(), trees):
            for pre_bind in (None, "S", "a"):
                cur["desc"] = f"{hn} / {tr!r:.60} / pre={pre_bind}"
                with jaxtyped("context"):
                    if pre_bind == "S":
                        isinstance((0, 0), PyTree[int, "S"])
                    elif pre_bind == "a":
                        isinstance(Z(2), A)
                    try:
                        isinstance(tr, h)
                    except AnnotationError:
                        pass
    finally:
        pt._MetaPyTree.__instancecheck__ = orig
    nested = sum(1 for r in rows if r["depth"] > 0)
    failed_nested = sum(1 for r in rows if r["depth"] > 0 and r["res"] != "T")
    if failed_nested < 100:
        raise MachineryFailure(f"only {failed_nested} failing nested PyTree checks were recorded")
    files = []
    for i in range(tlc.NCPU):
        fp = os.path.join(chk.workdir, f"nested_{i}.ndjson")
        with open(fp, "w") as f:
            for r in rows[i::tlc.NCPU]:
                f.write(json.dumps(r, separators=(",", ":")) + "\n")
        files.append(fp)
    mism, total = validate_rows(chk, "Rows_JtRollback", files, name="nested-rollback")
    want = dict(mism)
    for r in rows:
        if r["id"] in want:
            chk.disagree(f"C04:nested:{r['case']}:check={r['hint']}:depth={r['depth']}:res={r['res']}", {"row": r, "spec_expected": want[r["id"]]})
    chk.cov["traces_validated_against_impl"] += total
    chk.cov["evaluations"] += total
    chk.part("nested_pytree_checks", recorded=total, nested=nested, nested_not_passing=failed_nested, hints=sorted(hints))


def main(tier):
    chk = Check("C04", tier)
    try:
        wd = chk.workdir
        # the interruptible-walk model: proved for "always", refuted for the broken modes
        cfg = os.path.join(wd, "fine.cfg")
        tlc.write_cfg(cfg, spec="Spec", constants=FINE_OK,
                      invariants=["NothingBoundOnFailure", "FineEqualsCoarse", "SnapshotStable"])
        rfine = tlc.run("JtCheckFine", cfg, wd, args=["-coverage", "1"])
        chk.add_tlc("JtCheckFine[always]", rfine)
        chk.action_coverage("JtCheckFine", rfine, ["Walk", "Failed", "Raised"])
        for mode in ("exception_only", "never"):
            c = dict(FINE_SMALL, RollbackMode=mode)
            cfg = os.path.join(wd, f"fine_{mode}.cfg")
            tlc.write_cfg(cfg, spec="Spec", constants=c, invariants=["NothingBoundOnFailure"])
            chk.add_tlc(f"JtCheckFine[{mode}] (must be refuted)", tlc.run("JtCheckFine", cfg, wd),
                        expect_violation="NothingBoundOnFailure")
        n1, _ = rows_for(chk, BASE_U, "base", inject=False)
        n2, nf = rows_for(chk, FAULT_U, "faults", inject=True)
        if tier == "thorough":
            rows_for(chk, THOROUGH_U, "thorough-faults", inject=True)
            from . import suite
            suite.validate_suite(chk, "C04")      # every failed check of the repository's own tests: post == pre
        if nf == 0:
            raise MachineryFailure("no injected fault was ever raised: nothing observed")
        # PyTree half
        try:
            from . import pytree_rows
        except ImportError:
            pytree_rows = None
        if pytree_rows is not None:
            pytree_rows.run_for_c04(chk, tier)
            nested_rollback(chk)
        else:
            chk.notes.append("PyTree rows not available")
        chk.cov["distinct_nontrivial"] = nf
        chk.cov["exhaustive"] = True
        chk.cov["rule"] = ("every row of the stated MC_JtArray universes, plain / repeated / followed by probes; for the "
                           "fault universe every call-out position k (shape access, __format__) x {Exception, BaseException}; "
                           "non-trivial = rows in which an injected fault actually fired")
        chk.cov["constants"] = {"fine": {k: sorted(v) if isinstance(v, set) else v for k, v in FINE_OK.items()},
                                "base": {k: sorted(v) if isinstance(v, set) else v for k, v in BASE_U.items()},
                                "faults": {k: sorted(v) if isinstance(v, set) else v for k, v in FAULT_U.items()}}
        chk.assumptions += ["call-outs of an array check are the accesses of .shape and the __format__ of {args}; "
                            ".dtype and the array-type test happen before anything is bound",
                            "probe size 7 is outside every universe"]
    except MachineryFailure as e:
        return chk.abort(str(e))
    return chk.finish()
