"""Shared plumbing of the checks: evidence, violations, known findings, TLC row validation."""
import fnmatch
import json
import os
import re
import shutil
import sys
import tempfile
import time
from concurrent.futures import ThreadPoolExecutor

from . import tlc

VERIF = os.path.dirname(os.path.dirname(os.path.abspath(__file__)))
REPO = os.environ.get("VERIF_REPO", "/repo")
EVID = os.path.join(VERIF, "evidence")
if os.environ.get("VERIF_EVID_SUFFIX"):   # runs against seeded changes must not overwrite the evidence
    EVID = os.path.join(VERIF, "evidence", os.environ["VERIF_EVID_SUFFIX"])
REPLAYS = os.path.join(EVID, "replays")
PY = "/venv/bin/python"
GUARD = "JAXTYPING_VERIF"


def seed_from_env():
    try:
        return int(os.environ.get("VERIF_SEED", "0"))
    except ValueError:
        return 0


class MachineryFailure(Exception):
    pass


class Check:
    """Accumulates what one run of one property's check covered, decides the exit code."""

    def __init__(self, pid, tier, level="model_checking"):
        self.pid, self.tier, self.level = pid, tier, level
        self.seed = seed_from_env()
        self.t0 = time.time()
        self.cov = {"states": 0, "transitions": 0, "traces_validated_against_impl": 0,
                    "evaluations": 0, "distinct_nontrivial": 0, "samples": [], "rule": "",
                    "exhaustive": False, "tlc_runs": [], "constants": {}, "checker_cmd": "",
                    "tlc_version": "", "parts": {}}
        self.assumptions = []
        self.disagreements = []      # dicts: key, detail
        self.notes = []
        self.workdir = tempfile.mkdtemp(prefix=f"verif_{pid}_")
        import atexit
        atexit.register(lambda d=self.workdir: shutil.rmtree(d, ignore_errors=True))     # also when the harness dies of an exception
        os.makedirs(REPLAYS, exist_ok=True)
        for old in os.listdir(REPLAYS):
            if old.startswith(pid + "-"):
                os.remove(os.path.join(REPLAYS, old))

    # ---- bookkeeping
    def add_tlc(self, name, res, *, must_pass=True, expect_violation=None):
        """Record a TLC model-checking run. expect_violation: name of an invariant that MUST be
        refuted (broken-variant / vacuity run)."""
        self.cov["states"] += res.distinct
        self.cov["transitions"] += res.generated
        self.cov["tlc_version"] = res.version
        if not self.cov["checker_cmd"]:
            self.cov["checker_cmd"] = re.sub(r"-metadir \S+ ", "", res.cmd)
        self.cov["tlc_runs"].append({"name": name, "distinct_states": res.distinct,
                                     "states_generated": res.generated, "depth": res.depth,
                                     "wall_s": round(res.wall, 1),
                                     "outcome": "ok" if res.ok else (res.error_lines[:1] or ["rc=%d" % res.rc])[0]})
        if expect_violation:
            if expect_violation not in res.invariant_violated and expect_violation not in " ".join(res.error_lines) \
                    and expect_violation not in res.out:
                raise MachineryFailure(f"TLC run {name}: the broken variant was NOT refuted "
                                       f"(expected violation of {expect_violation})\n{res.tail()}")
            return
        if must_pass and not res.ok:
            if res.invariant_violated or res.property_violated or "is violated" in res.out:
                # a theorem of the specification fails on the specification itself
                self.disagree(f"{self.pid}:spec-theorem:{name}:{','.join(res.invariant_violated)}",
                              {"what": "a TLC-checked theorem of the specification is violated",
                               "tlc_tail": res.tail(60)})
            else:
                raise MachineryFailure(f"TLC run {name} failed:\n{res.tail(60)}")

    def action_coverage(self, name, res, expect):
        """vacuity guard: every named action of a state machine must have been taken (TLC -coverage 1)"""
        cov = {a: res.coverage.get(a, (0, 0)) for a in expect}
        never = [a for a, (d, g) in cov.items() if g == 0]
        self.part("action_coverage", **{name: {a: g for a, (d, g) in cov.items()}})
        if never:
            raise MachineryFailure(f"{name}: actions never taken in the explored model (vacuous): {never}")

    def sample(self, x, limit=6):
        if len(self.cov["samples"]) < limit:
            self.cov["samples"].append(x)

    def disagree(self, key, detail):
        self.disagreements.append({"key": key, "detail": detail})

    def part(self, name, **kw):
        self.cov["parts"].setdefault(name, {}).update(kw)

    # ---- finishing
    def finish(self):
        kf = load_known_findings()
        known_hit, violations = [], []
        for d in self.disagreements:
            ent = match_known(kf, self.pid, d["key"])
            if ent:
                known_hit.append((ent, d))
            else:
                violations.append(d)
        # one KNOWN-FINDING line per listed finding that was hit
        seen = set()
        for ent, d in known_hit:
            if ent["id"] not in seen:
                seen.add(ent["id"])
                print(f"KNOWN-FINDING: property={self.pid} {ent['id']}: {ent['what']}")
        rc = 0
        replay_paths = []
        # group violations by key prefix to keep replays readable
        for i, d in enumerate(violations[:20]):
            path = os.path.join(REPLAYS, f"{self.pid}-{i}.json")
            with open(path, "w") as f:
                json.dump({"property": self.pid, "key": d["key"], "detail": d["detail"],
                           "tier": self.tier, "seed": self.seed}, f, indent=1, default=str)
            replay_paths.append(path)
            print(f"VIOLATION property={self.pid} replay={path}")
            rc = 1
        if len(violations) > 20:
            print(f"... and {len(violations) - 20} further disagreements (see evidence file)")
        cov = self.cov
        cov["disagreements_total"] = len(self.disagreements)
        cov["known_findings_hit"] = sorted(seen)
        cov["violation_keys"] = [d["key"] for d in violations[:400]]
        cov["notes"] = self.notes
        if not cov["samples"]:
            cov["samples"] = ["(no sample recorded)"]
        ev = {"property_id": self.pid, "tier": self.tier, "seed": self.seed, "level": self.level,
              "coverage": cov, "assumptions": self.assumptions,
              "wall_s": round(time.time() - self.t0, 1), "violations": len(violations)}
        os.makedirs(EVID, exist_ok=True)
        with open(os.path.join(EVID, f"{self.pid}.json"), "w") as f:
            json.dump(ev, f, indent=1, default=str)
        shutil.rmtree(self.workdir, ignore_errors=True)
        print(f"{self.pid} {self.tier}: states={cov['states']} transitions={cov['transitions']} "
              f"impl_rows={cov['traces_validated_against_impl']} disagreements={len(self.disagreements)} "
              f"(known={len(known_hit)}) violations={len(violations)} wall={ev['wall_s']}s")
        return rc

    def abort(self, msg):
        shutil.rmtree(self.workdir, ignore_errors=True)
        print(f"MACHINERY-FAILURE property={self.pid}: {msg}", file=sys.stderr)
        return 2


def load_known_findings():
    p = os.path.join(VERIF, "known_findings.json")
    if not os.path.exists(p):
        return []
    return json.load(open(p))["findings"]


def match_known(kf, pid, key):
    for ent in kf:
        if ent.get("status") != "known" or ent.get("property") != pid:
            continue
        for pat in ent["keys"]:
            if key == pat or fnmatch.fnmatchcase(key, pat):
                return ent
    return None


# ------------------------------------------------------------------ row validation by TLC
CANARY_ID = -424242


def validate_rows(chk, module, row_files, constants=None, *, name="rows", timeout=3600, heap="3g",
                  canary_field="res", spec="Spec"):
    """Run one TLC process per row file (each -workers 1, in parallel); every row is one
    transition of the validator spec. Returns list of mismatches [(row_id, expected)]."""
    cfg = os.path.join(chk.workdir, f"{module}_{name}.cfg")
    tlc.write_cfg(cfg, spec=spec, constants=constants or None)
    files = [f for f in row_files if os.path.getsize(f) > 0]
    # demonstrate the binding on every run: a copy of an accepted row with its verdict flipped
    # must be rejected by TLC, otherwise nothing this validator says is believed
    canary = None
    if canary_field:
        with open(files[0]) as f:
            for line in f:
                if f'"{canary_field}":"T"' in line:
                    r = json.loads(line)
                    r[canary_field] = "CANARY"     # a verdict no specification allows
                    r["id"] = CANARY_ID
                    canary = os.path.join(chk.workdir, f"canary_{module}_{name}.ndjson")
                    with open(canary, "w") as g:
                        g.write(json.dumps(r, separators=(",", ":")) + "\n")
                    files = files + [canary]
                    break
    mism, total_rows, total_bad = [], 0, 0

    def one(f):
        res = tlc.run(module, cfg, chk.workdir, workers=1, env={"VERIF_ROWS": f}, timeout=timeout, heap=heap)
        res.printed()
        if getattr(res, "unparsed", 0):
            # TLC's own progress / warning lines can land inside a wrapped PrintT value: the run is deterministic, so
            # it is simply repeated once; a second failure is a machinery failure (reported with the offending text)
            with open(os.path.join(chk.workdir, "unparsed_" + os.path.basename(f) + ".txt"), "w") as g:
                g.write("\n----\n".join(getattr(res, "unparsed_text", [])))
            res = tlc.run(module, cfg, chk.workdir, workers=1, env={"VERIF_ROWS": f}, timeout=timeout, heap=heap)
        return f, res

    with ThreadPoolExecutor(max_workers=tlc.NCPU) as ex:
        results = list(ex.map(one, files))
    agg_states = agg_gen = 0
    wall = 0.0
    for f, res in results:
        done = None
        for v in res.printed():
            if isinstance(v, list) and v and v[0] == "MISMATCH":
                exp = v[2]
                if isinstance(exp, str):
                    try:
                        exp = json.loads(exp)
                    except ValueError:
                        pass
                mism.append((v[1], tlc.unset(exp)))
            elif isinstance(v, list) and v and v[0] == "DONE":
                done = v
        if done is None:
            raise MachineryFailure(f"row validator {module} did not finish on {f}:\n{res.tail(30)}")
        if getattr(res, "unparsed", 0):
            raise MachineryFailure(f"row validator {module}: {res.unparsed} printed values could not be read back:\n"
                                   + "\n".join(getattr(res, "unparsed_text", []))[:2000])
        total_rows += done[1]
        total_bad += done[2]
        agg_states += res.distinct
        agg_gen += res.generated
        wall = max(wall, res.wall)
        chk.cov["tlc_version"] = res.version
    chk.cov["states"] += agg_states
    chk.cov["transitions"] += agg_gen
    chk.cov["tlc_runs"].append({"name": f"{module}:{name}", "processes": len(files), "rows": total_rows,
                                "rows_rejected": total_bad, "distinct_states": agg_states,
                                "wall_s": round(wall, 1), "outcome": "ok"})
    # dedupe (PrintT may be evaluated more than once)
    seen, out = set(), []
    for rid, exp in mism:
        if rid not in seen:
            seen.add(rid)
            out.append((rid, exp))
    if canary:
        if not any(rid == CANARY_ID for rid, _ in out):
            cres = [r for f, r in results if f == canary][0]
            raise MachineryFailure(f"{module}:{name}: the corrupted canary row was NOT rejected - validator is not binding\n"
                                   + open(canary).read()[:1500] + "\n" + cres.tail(15))
        out = [(rid, e) for rid, e in out if rid != CANARY_ID]
        total_rows -= 1
        total_bad -= 1
        chk.part("binding_selftest", **{f"{module}:{name}": "corrupted row rejected"})
    if len(out) != total_bad:
        # never drop a rejection silently
        raise MachineryFailure(f"{module}:{name}: TLC rejected {total_bad} rows but {len(out)} MISMATCH "
                               f"records could be read back")
    return out, total_rows


def count_lines(path):
    n = 0
    with open(path, "rb") as f:
        for _ in f:
            n += 1
    return n


# ------------------------------------------------------------------ replay of a recorded disagreement
ROW_VALIDATORS = {"C01": "Rows_JtArray", "C04": "Rows_JtFault", "C08": "Rows_JtPyTree", "C09": "Rows_JtPyTree",
                  "C16": "Rows_JtPyTree", "C02": "Rows_JtCall", "C13": "Rows_JtCall", "C17": "Rows_JtCall",
                  "C14": "Rows_JtDims", "C07": "Rows_JtCallShape", "C19": "Rows_JtCallShape", "C10": "Rows_JtHookAst"}


def replay(pid, path):
    """./check <ID> --replay <file>: shows the recorded disagreement and lets TLC re-decide the recorded row
    (exit 1 if the specification still rejects it, 0 if it accepts it now, 2 if the file holds no row)."""
    d = json.load(open(path))
    print(json.dumps({"property": d.get("property"), "key": d.get("key")}, indent=1))
    row = (d.get("detail") or {}).get("row")
    mod = ROW_VALIDATORS.get(pid)
    if not row or not mod or "id" not in row:
        print(json.dumps(d.get("detail"), indent=1, default=str)[:4000])
        print("(this replay holds a behaviour / history rather than a single row: re-run the check to re-execute it)")
        return 2
    chk = Check(pid, "quick")
    try:
        p = os.path.join(chk.workdir, "replay.ndjson")
        open(p, "w").write(json.dumps(row) + "\n")
        spec = "RSpec" if mod == "Rows_JtDims" else "Spec"
        mism, _ = validate_rows(chk, mod, [p], name="replay", canary_field="none", spec=spec)
    finally:
        shutil.rmtree(chk.workdir, ignore_errors=True)
    if mism:
        print("the specification REJECTS the recorded observation; it expects:")
        print(json.dumps(mism[0][1], indent=1)[:3000])
        print(f"VIOLATION property={pid} replay={path}")
        return 1
    print("the specification accepts the recorded observation")
    return 0
