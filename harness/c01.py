"""C01 - an array check decides shape exactly as the dim-string language says.

spec -> code: TLC (MC_JtArray) checks the theorems over the bounded universe and
Emit_JtArray emits its factors; every row Memos x Pairs is executed on the real code.
code -> spec: the observed rows are re-decided by TLC (Rows_JtArray); additionally random
wide-scope multi-step histories are recorded from the real code and validated the same way.
"""
import json
import os
import random
import sys
from concurrent.futures import ProcessPoolExecutor

from . import tlc
from .common import Check, MachineryFailure, validate_rows

# quick: two universes - axes-focused (names, symbolic, '?', *v of rank <= 1) and
# variadic-focused (broadcasting of *v up to rank 2, no names)
QUICK = [dict(MaxSize=2, Names={"a"}, VNames={"v"}, MaxLen=2, MaxVarRank=1,
              SymIds={"ap1", "argn"}, WithQ=True, WithTheorems=False),
         dict(MaxSize=2, Names=set(), VNames={"v"}, MaxLen=2, MaxVarRank=2,
              SymIds=set(), WithQ=False, WithTheorems=False)]
FULL = dict(MaxSize=2, Names={"a"}, VNames={"v"}, MaxLen=2, MaxVarRank=2,
            SymIds={"ap1", "a2", "argn"}, WithQ=True, WithTheorems=True)
THOROUGH = [
    # two axis names (interplay of bindings), broadcasting of *v up to rank 2
    dict(MaxSize=2, Names={"a", "b"}, VNames={"v"}, MaxLen=2, MaxVarRank=2,
         SymIds={"apb"}, WithQ=False, WithTheorems=False),
    # three tokens per annotation (prefix / variadic / suffix all present), small sizes
    dict(MaxSize=1, Names={"a"}, VNames={"v"}, MaxLen=3, MaxVarRank=1,
         SymIds={"ap1"}, WithQ=True, WithTheorems=False),
    # sizes up to 3
    dict(MaxSize=3, Names={"a"}, VNames={"v"}, MaxLen=2, MaxVarRank=1,
         SymIds={"a2", "argm"}, WithQ=False, WithTheorems=False),
]
INVS = ["Rollback", "Frame", "Idempotent", "InAllowed", "GreedyIsSat"]


# ------------------------------------------------------------ executing rows on the code
def _canon_single(name, k):
    from . import render as R
    return R.array_ann(name), R.zeros((k,))


def run_rows_chunk(args):
    """Worker: execute rows (memo index range x all pairs) on the real code, write ndjson."""
    factors_path, mlo, mhi, out_path, id0 = args
    from . import render as R
    from jaxtyping import Float
    import numpy as np
    fac = json.load(open(factors_path))
    memos = [R.norm_memo(m) for m in fac["memos"][mlo:mhi]]
    pairs = fac["pairs"]
    nargs = fac["args"]["n"]
    anns = [R.array_ann(R.dim_str(p["toks"])) for p in pairs]
    objs = [R.make_obj(p["obj"]) for p in pairs]
    rid = id0
    route = None
    with open(out_path, "w") as f:
        for m in memos:
            for pi, p in enumerate(pairs):
                holder = {}

                def body():
                    # canonical history of accepted checks (public API) that yields memo m
                    for nm, k in m["single"].items():
                        if not isinstance(R.zeros((k,)), R.array_ann(nm)):
                            holder["pre_fail"] = f"canonical bind {nm}={k} rejected"
                    for nm, v in m["variadic"].items():
                        s = "*#" + nm if v["b"] else "*" + nm
                        if not isinstance(R.zeros(v["s"]), R.array_ann(s)):
                            holder["pre_fail"] = f"canonical bind {s}={v['s']} rejected"
                    pre, rt = R.observe_memo(want_args=True)
                    holder["pre"], holder["route"] = pre, rt
                    holder["res"] = R.verdict(lambda: isinstance(objs[pi], anns[pi]))
                    holder["post"], _ = R.observe_memo()
                R.in_call_context(nargs, body)
                pre = holder["pre"]
                route = holder["route"]
                row = {"id": rid, "toks": p["toks"], "obj": p["obj"],
                       "pre": {"single": pre["single"], "variadic": pre["variadic"]},
                       "args": pre.get("args", {"n": nargs}), "lab": "", "fl": False,
                       "res": holder["res"], "post": holder["post"]}
                if "pre_fail" in holder or R.norm_memo(pre) != m:
                    row["prefail"] = holder.get("pre_fail", "pre-state differs from the intended one")
                    row["intended"] = m
                f.write(json.dumps(row, separators=(",", ":")) + "\n")
                rid += 1
    return rid - id0, route


def exhaustive_table(chk, consts, tag):
    import time
    wd = chk.workdir
    t0 = time.time()
    # 1. TLC: theorems over the universe
    cfg = os.path.join(wd, f"mc_{tag}.cfg")
    tlc.write_cfg(cfg, spec="Spec", constants=consts, invariants=INVS)
    res = tlc.run("MC_JtArray", cfg, wd, timeout=3000, heap="12g")
    chk.add_tlc(f"MC_JtArray[{tag}]", res)
    # 2. TLC: factors of the table
    fpath = os.path.join(wd, f"factors_{tag}.json")
    ecfg = os.path.join(wd, f"emit_{tag}.cfg")
    tlc.write_cfg(ecfg, init="EmitInit", next="EmitNext", constants=consts)
    er = tlc.run("Emit_JtArray", ecfg, wd, workers=1, env={"VERIF_OUT": fpath}, timeout=1200)
    if not er.ok or not os.path.exists(fpath):
        raise MachineryFailure("factor emission failed:\n" + er.tail())
    fac = json.load(open(fpath))
    nm, npairs = len(fac["memos"]), len(fac["pairs"])
    if nm * npairs != fac["rowcount"]:
        raise MachineryFailure(f"row count: {nm}x{npairs} != {fac['rowcount']}")
    if res.generated - res.distinct != 0 and False:
        pass
    # the model-checking run must have visited exactly one state per row (+ initial states)
    if res.distinct != fac["rowcount"] + nm:
        raise MachineryFailure(f"TLC visited {res.distinct} states, table has {fac['rowcount']}+{nm}")
    # 3. execute every row on the implementation
    nproc = min(tlc.NCPU, nm)
    bounds = [(i * nm // nproc, (i + 1) * nm // nproc) for i in range(nproc)]
    jobs = [(fpath, lo, hi, os.path.join(wd, f"rows_{tag}_{i}.ndjson"), lo * npairs)
            for i, (lo, hi) in enumerate(bounds) if hi > lo]
    with ProcessPoolExecutor(max_workers=nproc) as ex:
        outs = list(ex.map(run_rows_chunk, jobs))
    nrows = sum(o[0] for o in outs)
    if nrows != fac["rowcount"]:
        raise MachineryFailure(f"executed {nrows} rows, table has {fac['rowcount']}")
    routes = {o[1] for o in outs}
    t_exec = time.time() - t0
    chk.part(f"table[{tag}]", rows=nrows, memos=nm, pairs=npairs, observation_route=sorted(map(str, routes)),
             wall_mc_emit_exec_s=round(t_exec, 1))
    files = [j[3] for j in jobs]
    # 4. TLC re-decides every observed row
    mism, total = validate_rows(chk, "Rows_JtArray", files, name=tag)
    if total != nrows:
        raise MachineryFailure(f"validated {total} rows of {nrows}")
    chk.cov["traces_validated_against_impl"] += total
    chk.cov["evaluations"] += total
    report_mismatches(chk, files, mism, tag)
    # pre-state failures
    for fp in files:
        with open(fp) as f:
            for line in f:
                if '"prefail"' in line:
                    r = json.loads(line)
                    chk.disagree(f"C01:prestate:{json.dumps(r['intended'], sort_keys=True)}",
                                 {"what": r["prefail"], "row": r})
    with open(files[0]) as f:
        for i, line in enumerate(f):
            if i in (5, 5000):
                chk.sample(json.loads(line))
    for fp in files:
        os.remove(fp)
    return nrows


def report_mismatches(chk, files, mism, tag):
    if not mism:
        return
    want = {rid: exp for rid, exp in mism}
    found = 0
    for fp in files:
        with open(fp) as f:
            for line in f:
                # cheap pre-filter on the id
                r = json.loads(line) if any(f'"id":{rid},' in line for rid in list(want)[:200]) else None
                if r is not None and r["id"] in want:
                    from . import render as R
                    key = (f"C01:arr:{R.dim_str(r['toks'])}:shape={r['obj']['shape']}:inst={r['obj']['inst']}"
                           f":dtin={r['obj']['dtin']}:pre={json.dumps(r['pre'], sort_keys=True)}")
                    chk.disagree(key, {"row": r, "spec_expected": want[r["id"]], "universe": tag})
                    found += 1
    if found < len(want):
        for rid in list(want)[:50]:
            chk.disagree(f"C01:arr:row{rid}", {"spec_expected": want[rid], "universe": tag})


# ------------------------------------------------------------ wide-scope random histories
NAMES = ["a", "b", "c", "dd", "n"]        # "n" is also the name of the call's (integer) argument: another namespace
VN = ["v", "w"]
EXPRS = [["+", ["n", "a"], ["i", 1]], ["-", ["n", "a"], ["i", 1]], ["*", ["i", 2], ["n", "b"]],
         ["+", ["n", "a"], ["n", "b"]], ["*", ["n", "a"], ["n", "c"]], ["a", "n"],
         ["+", ["a", "n"], ["n", "a"]], ["min", ["n", "a"], ["n", "b"]], ["max", ["n", "c"], ["i", 2]],
         ["//", ["n", "dd"], ["i", 2]], ["-", ["*", ["n", "a"], ["n", "b"]], ["n", "c"]],
         ["+", ["n", "n"], ["a", "n"]], ["+", ["n", "n"], ["i", 1]], ["*", ["a", "n"], ["n", "n"]]]


def rand_tok(rng, variadic):
    b = lambda k, nm="", v=0, e=[]: {"k": k, "nm": nm, "v": v, "e": e}
    h = ["#"] if rng.random() < .3 else []
    eq = ["="] if rng.random() < .1 else []
    if variadic:
        r = rng.random()
        if r < .3:
            return {"mods": [], "base": b("dots")}
        if r < .4:
            return {"mods": rng.sample(["*", "_"], 2), "base": b("empty")}
        mods = h + ["*"] + eq
        rng.shuffle(mods)
        return {"mods": mods, "base": b("ident", rng.choice(VN))}
    r = rng.random()
    if r < .12:
        return {"mods": ["_"] + eq, "base": b(rng.choice(["empty", "ident"]), "zz")}
    if r < .35:
        mods = h + eq
        rng.shuffle(mods)
        return {"mods": mods, "base": b("int", v=rng.randint(0, 4))}
    if r < .8:
        mods = h + eq
        rng.shuffle(mods)
        return {"mods": mods, "base": b("ident", rng.choice(NAMES))}
    mods = h + eq
    rng.shuffle(mods)
    return {"mods": mods, "base": b("sym", e=rng.choice(EXPRS))}


def printed_bindings():
    """what the public print_bindings() shows, parsed (names, sizes, shapes)"""
    import contextlib
    import io
    import jaxtyping
    from . import render as R
    buf = io.StringIO()
    with contextlib.redirect_stdout(buf):
        jaxtyping.print_bindings()
    b = R.parse_bindings(buf.getvalue())
    return {"single": b["single"], "variadic": {k: v["s"] for k, v in b["variadic"].items()}}


def run_random_chunk(args):
    seed, ntraces, out_path, id0 = args
    from . import render as R
    import numpy as np
    rng = random.Random(seed)
    rid = id0
    holder_bad = []
    with open(out_path, "w") as f:
        for _ in range(ntraces):
            nval = rng.randint(0, 3)
            steps = rng.randint(1, 7)
            rows = []

            def body():
                nonlocal rid
                for _s in range(steps):
                    n = rng.randint(0, 4)
                    toks = [rand_tok(rng, False) for _ in range(n)]
                    if rng.random() < .5:
                        toks.insert(rng.randint(0, n), rand_tok(rng, True))
                    if rng.random() < .12:
                        # several symbolic axes, each using names bound earlier in the same dim string
                        mk = lambda k, **kw: {"mods": [], "base": dict({"k": k, "nm": "", "v": 0, "e": []}, **kw)}
                        x, y = rng.sample(NAMES, 2)
                        toks = [mk("ident", nm=x), mk("sym", e=["+", ["n", x], ["i", 1]]), mk("ident", nm=y),
                                mk("sym", e=rng.choice([["+", ["n", x], ["n", y]], ["*", ["n", y], ["i", 2]], ["-", ["n", y], ["n", x]]]))]
                        if rng.random() < .4:
                            toks.insert(rng.choice([0, 2, 4]), rand_tok(rng, True))
                    for t in toks:
                        if t["base"]["k"] == "empty" and "_" in t["mods"] and t["base"]["nm"]:
                            t["base"]["nm"] = ""
                    rank = max(0, len(toks) + rng.choice([-1, 0, 0, 0, 0, 1, 2]))
                    rank = min(rank, 5)
                    # bias shapes towards what is already bound so that accepted checks are common
                    pre, _ = R.observe_memo(want_args=True)
                    pool = list(pre["single"].values()) + [0, 1, 1, 2, 3, 4]
                    shape = [rng.choice(pool) for _ in range(rank)]
                    if (len(toks) == 4 and [t["base"]["k"] for t in toks] == ["ident", "sym", "ident", "sym"]
                            and not any(t["mods"] for t in toks) and rng.random() < .7):
                        # make the multi-symbolic template plausible: sizes derived from the two bound names
                        a_, b_ = rng.randint(1, 3), rng.randint(1, 3)
                        env = {toks[0]["base"]["nm"]: a_, toks[2]["base"]["nm"]: b_}
                        ev = lambda e: e[1] if e[0] == "i" else env.get(e[1], 1) if e[0] == "n" else \
                            {"+": ev(e[1]) + ev(e[2]), "-": ev(e[1]) - ev(e[2]), "*": ev(e[1]) * ev(e[2])}[e[0]]
                        try:
                            shape = [a_, ev(toks[1]["base"]["e"]), b_, max(ev(toks[3]["base"]["e"]), 0)]
                        except Exception:
                            pass
                    inst = rng.random() > .04
                    dtin = rng.random() > .04
                    obj = {"inst": inst, "dtin": dtin, "shape": shape}
                    try:
                        ann = R.array_ann(R.dim_str(toks))
                    except ValueError:
                        continue
                    res = R.verdict(lambda: isinstance(R.make_obj(obj), ann))
                    post, _ = R.observe_memo()
                    pb = printed_bindings()
                    if pb != {"single": post["single"], "variadic": {k: v["s"] for k, v in post["variadic"].items()}}:
                        holder_bad.append({"post": post, "print_bindings": pb})
                    rows.append({"id": rid, "toks": toks, "obj": obj,
                                 "pre": {"single": pre["single"], "variadic": pre["variadic"]},
                                 "args": pre.get("args", {}), "lab": "", "fl": False, "res": res, "post": post})
                    rid += 1
            R.in_call_context(nval, body)
            # continuity: nothing but the checks themselves changes the context
            for i in range(1, len(rows)):
                if rows[i]["pre"] != {"single": rows[i - 1]["post"]["single"], "variadic": rows[i - 1]["post"]["variadic"]}:
                    rows[i]["discontinuity"] = True
            for r in rows:
                f.write(json.dumps(r, separators=(",", ":")) + "\n")
    if holder_bad:
        with open(out_path + ".pb", "w") as g:
            json.dump(holder_bad[:20], g)
    return rid - id0


def random_histories(chk, ntraces, seed):
    wd = chk.workdir
    nproc = tlc.NCPU
    per = max(1, ntraces // nproc)
    jobs = [(seed * 1000 + i, per, os.path.join(wd, f"rand_{i}.ndjson"), i * 10_000_000) for i in range(nproc)]
    with ProcessPoolExecutor(max_workers=nproc) as ex:
        counts = list(ex.map(run_random_chunk, jobs))
    files = [j[2] for j in jobs]
    mism, total = validate_rows(chk, "Rows_JtArray", files, name="random")
    if total != sum(counts):
        raise MachineryFailure(f"random rows validated {total} != {sum(counts)}")
    chk.cov["traces_validated_against_impl"] += total
    chk.cov["evaluations"] += total
    nontriv = 0
    for fp in files:
        with open(fp) as f:
            for line in f:
                if '"res":"T"' in line and ('"single":{"' in line or '"variadic":{"' in line):
                    nontriv += 1
                if '"discontinuity"' in line:
                    r = json.loads(line)
                    chk.disagree(f"C01:discontinuity:{r['id']}", {"row": r, "what": "context changed between two checks"})
    for fp in files:
        if os.path.exists(fp + ".pb"):
            for b in json.load(open(fp + ".pb"))[:5]:
                chk.disagree(f"C01:print_bindings:{json.dumps(b['post'], sort_keys=True)[:150]}",
                             {"what": "print_bindings() does not show exactly the bindings in force", **b})
    chk.part("random_histories", traces=per * nproc, rows=total, accepted_with_bindings=nontriv,
             print_bindings_compared_after_every_check=True)
    report_mismatches(chk, files, mism, "random")
    with open(files[0]) as f:
        for i, line in enumerate(f):
            if i == 3:
                chk.sample(json.loads(line))
    for fp in files:
        os.remove(fp)
    return total


def main(tier):
    chk = Check("C01", tier)
    try:
        if tier == "quick":
            for i, c in enumerate(QUICK):
                exhaustive_table(chk, c, f"quick{i}")
            random_histories(chk, 20000, chk.seed)
            chk.cov["constants"] = {"quick": [{k: sorted(v) if isinstance(v, set) else v for k, v in c.items()}
                                              for c in QUICK]}
        else:
            full = FULL
            exhaustive_table(chk, full, "full+theorems")
            for i, c in enumerate(THOROUGH):
                exhaustive_table(chk, c, f"thorough{i}")
            random_histories(chk, 300000, chk.seed)
            from . import suite
            suite.validate_suite(chk, "C01")
            chk.cov["constants"] = {"thorough": [{k: sorted(v) if isinstance(v, set) else v for k, v in c.items()}
                                                 for c in [full] + THOROUGH]}
        chk.cov["exhaustive"] = True
        chk.cov["rule"] = ("every (context state, annotation, object) row of the bounded universe of MC_JtArray is "
                           "executed on the implementation and re-decided by TLC; plus random multi-step histories "
                           "(<=5 axes, sizes 0..4, 4 names, 2 variadic names, 11 symbolic expressions). "
                           "distinct_nontrivial = accepted random checks made under a non-empty context")
        chk.cov["distinct_nontrivial"] = chk.cov["parts"].get("random_histories", {}).get("accepted_with_bindings", 0)
        chk.assumptions += ["TLC and the CommunityModules JSON reader are trusted",
                            "pre-states are established through accepted checks (public API) and observed through "
                            "jaxtyping._storage.get_shape_memo() when present, else print_bindings()",
                            "negative / non-ASCII integers and symbolic expressions outside + - * // min max are not explored"]
    except MachineryFailure as e:
        return chk.abort(str(e))
    return chk.finish()
