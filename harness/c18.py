"""C18 - cached bytecode never makes a module run with the wrong instrumentation.

TLC: JtHookCache (persistent source versions and per-tag caches; runs choosing hooked set, checker,
import order incl. nested imports; edits between runs): Fresh and CacheTagged for the get_code patch
scope; the exec_module scope (defect D4) must be refuted. Binding: histories emitted by TLC are
replayed as sequences of fresh interpreter processes over one program directory with real
__pycache__ files; every run reports the source version and the instrumentation each module
actually executed with."""
import glob
import json
import os
import random
import shutil
import subprocess
import tempfile
from concurrent.futures import ThreadPoolExecutor

from . import tlc
from .common import Check, MachineryFailure, PY, VERIF

SPY = '''
from beartype import beartype
LOG = []
def c1_1630558(fn):
    LOG.append(("c1", fn.__module__))
    return beartype(fn)
'''
SPY2 = '''
from beartype import beartype
import B          # this typechecker's package uses a module of the project
LOG = []
def c2_819212(fn):
    LOG.append(("c2", fn.__module__))
    return beartype(fn)
'''
# the two typechecker strings are chosen so that their md5 digests (the cache tag is derived from them) agree in the
# first 10 hex digits: a tag that keeps less than the whole digest confuses them
CHECKER_STRINGS = {"c1": "verif_spy.c1_1630558", "c2": "verif_spy2.c2_819212"}
IMPORTS = {"A": ["B"], "B": [], "C": ["A"]}


def write_module(root, m, ver, mods, t):
    src = "".join(f"import {n}\n" for n in IMPORTS[m] if n in mods)
    src += f"VERSION = {ver}\n" + "#" * ver + f"\ndef f(x: int):\n    return (x, {ver})\n"
    p = os.path.join(root, m + ".py")
    open(p, "w").write(src)
    os.utime(p, (t, t))          # pyc invalidation is by mtime + size: both change with every edit


def replay(args):
    hist, mods, repo = args
    root = tempfile.mkdtemp(prefix="verif_c18_")
    try:
        open(os.path.join(root, "verif_spy.py"), "w").write(SPY)
        open(os.path.join(root, "verif_spy2.py"), "w").write(SPY2)
        ver = {m: 0 for m in mods}
        t = 1_600_000_000
        for m in mods:
            write_module(root, m, 0, mods, t)
        open(os.path.join(root, "X.py"), "w").write("def f(x: int)\n    return x   # does not compile\n")
        env = {k: v for k, v in os.environ.items() if k != "PYTHONDONTWRITEBYTECODE"}
        env["PYTHONPATH"] = repo + os.pathsep + VERIF
        got, npyc = [], 0
        for r in hist:
            if r["kind"] == "edit":
                ver[r["mod"]] += 1
                t += 100
                write_module(root, r["mod"], ver[r["mod"]], mods, t)
                continue
            cfg = {"root": root, "hooked": sorted(r["hooked"]), "checker": r["checker"], "order": r["order"], "modules": mods,
                   "nowrite": r["nowrite"], "disabled": r["disabled"]}
            env_r = dict(env, JAXTYPING_DISABLE="1") if r["disabled"] else env
            p = subprocess.run([PY, os.path.join(VERIF, "harness", "cache_child.py"), json.dumps(cfg)], capture_output=True,
                               text=True, env=env_r, timeout=1200)
            line = [l for l in p.stdout.splitlines() if l.startswith("RESULT ")]
            if not line:
                got.append({"error": (p.stderr or p.stdout)[-400:]})
            else:
                got.append(json.loads(line[0][7:]))
            npyc = len(glob.glob(os.path.join(root, "__pycache__", "*.pyc")))
        exp = []
        for r in hist:
            if r["kind"] == "run":
                exp.append({m: {"ver": c["ver"], "instr": c["instr"]} for m, c in r["result"].items() if c["ver"] >= 0})
        return {"hist": hist, "expected": exp, "observed": got, "pycs": npyc}
    finally:
        shutil.rmtree(root, ignore_errors=True)


def histories(chk, mods, imports, runs, edits, tag, simulate=6000):
    cfg = os.path.join(chk.workdir, f"hc_emit_{tag}.cfg")
    consts = {"Modules": set(mods), "Imports": tlc.Sub(imports), "Checkers": {"c1", "c2"}, "PatchScope": "get_code",
              "MaxRuns": runs, "MaxEdits": edits, "CheckerImports": tlc.Sub("CkImpB")}
    tlc.write_cfg(cfg, spec="Spec", constants=consts, constraints=["Emit"])
    # the histories are sampled by TLC's simulator (the exhaustive set has millions of members)
    res = tlc.run("JtHookCache", cfg, chk.workdir, workers=1, heap="4g", timeout=1800,
                  args=["-simulate", f"num={simulate}", "-depth", "40", "-seed", str(chk.seed + 3)])
    seen, hs = set(), []
    for v in res.printed():
        if isinstance(v, list) and len(v) == 2 and v[0] == "HIST" and v[1] not in seen:
            seen.add(v[1])
            hs.append(json.loads(v[1]))
    if not hs:
        raise MachineryFailure("no cache histories emitted:\n" + res.tail())
    chk.cov["tlc_runs"].append({"name": f"JtHookCache[simulate {tag}]", "behaviours": len(hs), "wall_s": round(res.wall, 1),
                                "outcome": "ok"})
    return hs


def main(tier):
    chk = Check("C18", tier)
    try:
        wd = chk.workdir
        for scope, expect in (("get_code", None), ("exec_module", "is violated"), ("leak_on_error", "is violated"),
                              ("skip_when_nowrite", "is violated"), ("compile_window", "is violated"),
                              ("skip_when_disabled", "is violated")):
            cfg = os.path.join(wd, f"hc_{scope}.cfg")
            tlc.write_cfg(cfg, spec="Spec", view="View", invariants=["Fresh", "CacheTagged"],
                          constants={"Modules": {"A", "B", "C"} if (not expect and tier == "thorough") else {"A", "B"},
                                     "Imports": tlc.Sub("ImportsABC" if (not expect and tier == "thorough") else "ImportsAB"),
                                     "Checkers": {"c1", "c2"}, "PatchScope": scope, "CheckerImports": tlc.Sub("CkImpB"),
                                     "MaxRuns": 3 if (not expect and tier == "thorough") else 2, "MaxEdits": 1})
            rh = tlc.run("JtHookCache", cfg, wd, heap="8g", timeout=1800, args=["-coverage", "1"])
            chk.add_tlc(f"JtHookCache[{scope}]" + (" (must be refuted)" if expect else ""), rh, expect_violation=expect)
            if not expect:
                chk.action_coverage("JtHookCache", rh, ["StartRun", "Edit", "TopImport", "ImportBroken", "Step", "EndRun"])
        rng = random.Random(chk.seed)
        h2 = histories(chk, ["A", "B"], "ImportsAB", 2, 1, "2mod-2run")
        n2 = len(h2)
        # prefer histories in which the two runs differ in configuration (that is where a cache can lie)
        def interesting(h):
            rs = [r for r in h if r["kind"] == "run"]
            return len(rs) == 2 and (sorted(rs[0]["hooked"]) != sorted(rs[1]["hooked"]) or rs[0]["checker"] != rs[1]["checker"]
                                      or rs[0]["disabled"] != rs[1]["disabled"] or any(r["kind"] == "edit" for r in h)) and not rs[0]["nowrite"]
        pool = [h for h in h2 if interesting(h)]
        # half of the sample: histories that import the broken module or run without writing bytecode
        special = [h for h in pool if any(r["kind"] == "run" and (r["nowrite"] or "X" in r["order"]) for r in h)]
        nsel = 300 if tier == "quick" else 6000
        sel = rng.sample(special, min(len(special), nsel // 2)) + rng.sample(pool, min(len(pool), nsel // 2))
        jobs = [(h, ["A", "B"], os.environ.get("VERIF_REPO", "/repo")) for h in sel]
        if tier == "thorough":
            h3 = histories(chk, ["A", "B", "C"], "ImportsABC", 3, 1, "3mod-3run")
            jobs += [(h, ["A", "B", "C"], os.environ.get("VERIF_REPO", "/repo")) for h in rng.sample(h3, min(len(h3), 1500))]
        with ThreadPoolExecutor(max_workers=tlc.NCPU) as ex:
            outs = list(ex.map(replay, jobs))
        pycs = 0
        for o in outs:
            pycs += o["pycs"]
            if o["observed"] != o["expected"]:
                desc = " ; ".join(("edit:" + r["mod"]) if r["kind"] == "edit" else
                                  f"run[hook={''.join(sorted(r['hooked']))}|{r['checker']}|{'>'.join(r['order'])}]" for r in o["hist"])
                chk.disagree(f"C18:{desc}", o)
        if pycs == 0:
            raise MachineryFailure("no bytecode cache file was ever written: the runs did not exercise the cache")
        chk.cov["traces_validated_against_impl"] = len(outs)
        chk.cov["evaluations"] = len(outs)
        chk.cov["distinct_nontrivial"] = len(outs)
        chk.cov["rule"] = ("histories = TLC-simulated behaviours of JtHookCache (2 modules A->B plus a non-compiling module X, 2 runs, <=1 "
                           "edit, runs with/without bytecode writing: %d distinct ones simulated); replayed: those whose runs differ in "
                           "hooked set / checker or contain an edit, half of them importing X or not writing bytecode; every "
                           "history is distinct and non-trivial by that rule" % n2)
        chk.sample({"history": sel[0], "note": "each run is a fresh interpreter over the same directory"})
        chk.part("replay", histories=len(outs), pyc_files_seen=pycs)
        chk.assumptions += ["pyc invalidation by mtime+size (default); source mtimes are set explicitly",
                            "PYTHONDONTWRITEBYTECODE is removed from the children's environment"]
    except MachineryFailure as e:
        return chk.abort(str(e))
    return chk.finish()
