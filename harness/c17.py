"""C17 - verdicts depend on type, shape and dtype only, so tracing equals eager.

The specification's ArrayCheck takes (type kind, dtype, shape) and nothing else, so ONE
TLC-decided verdict (JtWrapper.CallOutcome) is the oracle for the eager and for every traced
execution of the same case."""
import json
import os
import random
from concurrent.futures import ProcessPoolExecutor

from . import tlc
from .common import Check, MachineryFailure, validate_rows
from . import c02


def worker(args):
    alpha, seed, n, out_path, id0 = args
    from . import calls
    rng = random.Random(seed)
    k = 0
    with open(out_path, "w") as f:
        while k < n:
            case = c02.gen_history_case(alpha, rng) if rng.random() < .2 else c02.gen_case(alpha, rng, maxp=3, symp=.4)
            # the case, a sibling (one shape changed, other array objects reused), and the case again
            prev = None
            fam = c02.sibling_family(case, rng)
            case.pop("_vary", None)
            for c in [case] + fam + [json.loads(json.dumps(case))]:
                c["variants"] = calls.run_jax_variants(c, seed=seed + k, prime=prev)
                prev = case if c is not case else None
                c["id"] = id0 + k
                k += 1
                f.write(json.dumps(c, separators=(",", ":")) + "\n")
    return k


def main(tier):
    chk = Check("C17", tier)
    try:
        alpha = c02.emit_alphabet(chk)
        ncases = 900 if tier == "quick" else 6000
        nproc = tlc.NCPU
        per = max(1, ncases // nproc)
        jobs = [(alpha, chk.seed * 7919 + i, per, os.path.join(chk.workdir, f"jax_{i}.ndjson"), i * 1_000_000)
                for i in range(nproc)]
        with ProcessPoolExecutor(max_workers=nproc) as ex:
            n = sum(ex.map(worker, jobs))
        files = [j[3] for j in jobs]
        mism, total = validate_rows(chk, "Rows_JtCall", files, name="c17", canary_field="none")
        c02.call_selftest(chk, files)
        want = dict(mism)
        nv = rej = 0
        from . import render as R
        for fp in files:
            for line in open(fp):
                r = json.loads(line)
                nv += len(r["variants"])
                rej += r["variants"][0]["outcome"] != "ok"
                if r["id"] in want:
                    sig = ", ".join(f"'{R.dim_str(p['toks'])}'={s}" for p, s in zip(r["params"], r["shapes"]))
                    chk.disagree(f"C17:({sig}):bad={sorted(want[r['id']].get('bad', []))[:4]}", {"row": r, "spec": want[r["id"]]})
                if r["id"] % 1_000_000 == 1:
                    chk.sample({"signature": [R.dim_str(p["toks"]) for p in r["params"]], "shapes": r["shapes"],
                                "variants": [(v["desc"], v["outcome"]) for v in r["variants"]]}, limit=3)
        chk.cov["traces_validated_against_impl"] = nv
        chk.cov["evaluations"] = nv
        chk.cov["distinct_nontrivial"] = rej
        chk.cov["rule"] = ("random signatures of 1..3 jax.Array parameters (+return); each executed eagerly on two different value "
                           "seeds and under jit, eval_shape, vmap (in_axes 0 / -1 / partial), jit(vmap), grad, both checkers; "
                           "non-trivial = rejected cases")
        chk.part("cases", n=n, variants=nv, rejected=rej)
        chk.assumptions += ["JAX 0.6.2 CPU; a ConcretizationTypeError / TracerBoolConversionError shows up as a foreign exception "
                            "and therefore as a disagreement"]
    except MachineryFailure as e:
        return chk.abort(str(e))
    return chk.finish()
