"""C17 - verdicts depend on type, shape and dtype only, so tracing equals eager.

The specification's ArrayCheck takes (type kind, dtype, shape) and nothing else, so ONE
TLC-decided verdict (JtWrapper.CallOutcome) is the oracle for the eager and for every traced
execution of the same case."""
import json
import os
import random
from concurrent.futures import ProcessPoolExecutor

from . import tlc
from .common import Check, MachineryFailure, validate_rows
from . import c02


def _t(k, nm="", v=0, e=None, mods=()):
    return {"mods": list(mods), "base": {"k": k, "nm": nm, "v": v, "e": e or []}}


ARG_ATTRS = {"len({0})": lambda s: s[0] if s else None, "{0}.shape[0]": lambda s: s[0] if s else None,
             "{0}.shape[-1]": lambda s: s[-1] if s else None, "{0}.ndim": lambda s: len(s),
             "{0}.size": lambda s: __import__("math").prod(s)}


def gen_argref_case(rng):
    """axes written as f-string expressions over ARRAY arguments ({len(x0)}, {x0.shape[0]}, {x0.ndim}, {x0.size}):
    only shape information of the argument is read, so tracing must agree with eager"""
    n = rng.choice([2, 2, 3])
    names = [f"x{i}" for i in range(n)]
    shapes = [[rng.randint(1, 3) for _ in range(rng.choice([1, 1, 2]))]]
    params = [{"nm": names[0], "toks": [_t("ident", "abc"[j]) for j in range(len(shapes[0]))]}]
    args = {}
    defs = []

    def argexpr(upto):
        j = rng.randrange(upto)
        tmpl = rng.choice(sorted(ARG_ATTRS))
        key = tmpl.format(names[j])
        args[key] = ARG_ATTRS[tmpl](shapes[j])
        defs.append((key, tmpl, j))
        e = ["a", key]
        r = rng.random()
        if r < .4:
            e = ["+", e, ["i", rng.randint(1, 2)]]
        elif r < .55 and upto > 1:
            j2 = rng.randrange(upto)
            k2 = "len({0})".format(names[j2])
            args[k2] = shapes[j2][0]
            defs.append((k2, "len({0})", j2))
            e = ["+", e, ["a", k2]]
        elif r < .65:
            e = ["*", ["i", 2], e]
        return e

    def val(e):
        if e[0] == "a":
            return args[e[1]]
        if e[0] == "i":
            return e[1]
        x, y = val(e[1]), val(e[2])
        return x + y if e[0] == "+" else x * y
    for i in range(1, n):
        e = argexpr(i)
        toks = [_t("sym", e=e)]
        sh = [val(e)]
        if rng.random() < .4:
            toks.insert(0, _t("ident", "a"))
            sh.insert(0, shapes[0][0])
        if rng.random() < .3:
            sh[rng.randrange(len(sh))] = rng.randint(1, 4)
        params.append({"nm": names[i], "toks": toks})
        shapes.append(sh)
    hasret = rng.random() < .5
    rettoks, retshape = [], []
    if hasret:
        e = argexpr(n)
        rettoks, retshape = [_t("sym", e=e)], [val(e) if rng.random() < .7 else rng.randint(1, 4)]
    return {"params": params, "shapes": shapes, "hasret": hasret, "rettoks": rettoks, "retshape": retshape, "args": args,
            "_argdefs": defs}


def gen_argname_case(rng):
    """a symbolic axis whose free name is NOT a bound axis but is the name of an (array) argument: axis names and
    argument names are different namespaces, so this cannot be evaluated - in every mode, whatever the values"""
    nm = rng.choice(["a", "b"])
    other = "b" if nm == "a" else "a"
    first = rng.choice([[], [], [_t("ident", other)], [_t("int", v=rng.randint(1, 3))]])
    sh0 = [rng.randint(1, 3) for _ in first]
    if first and first[0]["base"]["k"] == "int":
        sh0 = [first[0]["base"]["v"]]
    e = rng.choice([["+", ["n", nm], ["i", 1]], ["n", nm], ["*", ["i", 2], ["n", nm]], ["+", ["n", nm], ["n", other]]])
    e = e if e[0] != "n" else ["+", e, ["i", 0]]
    params = [{"nm": nm, "toks": first}, {"nm": "x1", "toks": [_t("sym", e=e)]}]
    return {"params": params, "shapes": [sh0, [rng.choice([1, 1, 2, 3, 4])]], "hasret": False, "rettoks": [], "retshape": [], "args": {}}


def gen_varkw_case(alpha, rng):
    """f(**kw: Ann) called with 3-4 keyword arguments whose call order is not the sorted order of their names"""
    cands = [t for t in alpha["alphabet"] if t and not any(x["base"]["k"] == "sym" for x in t)]
    toks = rng.choice([t for t in cands if any("*" in x["mods"] and "#" in x["mods"] for x in t)] if rng.random() < .7 else cands)
    n = rng.choice([3, 3, 4])
    names = rng.sample(["k1", "k2", "k3", "k4", "a", "zz"], n)
    if names == sorted(names):
        names.reverse()
    sigma = {"a": rng.randint(1, 3), "b": rng.randint(1, 3), "*v": [rng.randint(1, 3) for _ in range(rng.randint(1, 2))]}
    shapes = []
    for _ in range(n):
        s = c02.instantiate(toks, sigma, rng)
        r = rng.random()
        if r < .6:
            s = [1 if rng.random() < .5 else x for x in s]      # broadcasting candidates (all-ones in the middle of a sequence)
        elif r < .7 and s:
            s[rng.randrange(len(s))] = rng.randint(1, 3)
        shapes.append(s)
    if rng.random() < .5 and shapes[0]:
        # two arguments that disagree in one axis, separated (in CALL order) by one whose variadic part is all ones
        A = c02.instantiate(toks, sigma, rng)
        B = list(A)
        j = rng.randrange(len(A))
        A[j], B[j] = rng.sample([2, 3, 4], 2)
        shapes = [A, [1] * len(A), B] + ([list(A)] if n == 4 else [])
    return {"params": [{"nm": nm, "toks": toks} for nm in names], "shapes": shapes, "hasret": False, "rettoks": [], "retshape": [],
            "args": {}, "_varkw": True}


def worker(args):
    alpha, seed, n, out_path, id0 = args
    from . import calls
    rng = random.Random(seed)
    k = 0
    with open(out_path, "w") as f:
        while k < n:
            r = rng.random()
            case = (c02.gen_history_case(alpha, rng) if r < .2 else gen_argref_case(rng) if r < .4 else
                    gen_argname_case(rng) if r < .5 else gen_varkw_case(alpha, rng) if r < .65 else
                    c02.gen_case(alpha, rng, maxp=3, symp=.4))
            if case.pop("_varkw", False):
                case["variants"] = calls.run_jax_varkw(case, seed=seed + k)
                case["id"] = id0 + k
                k += 1
                f.write(json.dumps(case, separators=(",", ":")) + "\n")
                continue
            # the case, a sibling (one shape changed, other array objects reused), and the case again
            prev = None
            fam = c02.sibling_family(case, rng)
            case.pop("_vary", None)
            defs = case.pop("_argdefs", None)
            for c in [case] + fam + [json.loads(json.dumps(case))]:
                c.pop("_argdefs", None)
                if defs:       # what the argument expressions evaluate to follows the (varied) shapes
                    c["args"] = {key: ARG_ATTRS[tmpl](c["shapes"][j]) for key, tmpl, j in defs}
                c["variants"] = calls.run_jax_variants(c, seed=seed + k, prime=prev)
                prev = case if c is not case else None
                c["id"] = id0 + k
                k += 1
                f.write(json.dumps(c, separators=(",", ":")) + "\n")
    return k


def main(tier):
    chk = Check("C17", tier)
    try:
        alpha = c02.emit_alphabet(chk)
        ncases = 900 if tier == "quick" else 6000
        nproc = tlc.NCPU
        per = max(1, ncases // nproc)
        jobs = [(alpha, chk.seed * 7919 + i, per, os.path.join(chk.workdir, f"jax_{i}.ndjson"), i * 1_000_000)
                for i in range(nproc)]
        with ProcessPoolExecutor(max_workers=nproc) as ex:
            n = sum(ex.map(worker, jobs))
        files = [j[3] for j in jobs]
        mism, total = validate_rows(chk, "Rows_JtCall", files, name="c17", canary_field="none")
        c02.call_selftest(chk, files)
        want = dict(mism)
        nv = rej = 0
        from . import render as R
        for fp in files:
            for line in open(fp):
                r = json.loads(line)
                nv += len(r["variants"])
                rej += r["variants"][0]["outcome"] != "ok"
                if r["id"] in want:
                    sig = ", ".join(f"'{R.dim_str(p['toks'])}'={s}" for p, s in zip(r["params"], r["shapes"]))
                    chk.disagree(f"C17:({sig}):bad={sorted(want[r['id']].get('bad', []))[:4]}", {"row": r, "spec": want[r["id"]]})
                if r["id"] % 1_000_000 == 1:
                    chk.sample({"signature": [R.dim_str(p["toks"]) for p in r["params"]], "shapes": r["shapes"],
                                "variants": [(v["desc"], v["outcome"]) for v in r["variants"]]}, limit=3)
        chk.cov["traces_validated_against_impl"] = nv
        chk.cov["evaluations"] = nv
        chk.cov["distinct_nontrivial"] = rej
        chk.cov["rule"] = ("random signatures of 1..3 jax.Array parameters (+return), incl. axes written as f-string expressions "
                           "over array arguments ({len(x0)}, {x0.shape[0]}, {x0.ndim}, {x0.size}) and symbolic axes whose free name "
                           "is an argument's name; each executed eagerly on two different value "
                           "seeds and under jit, eval_shape, vmap (in_axes 0 / -1 / partial), jit(vmap), grad, both checkers; "
                           "non-trivial = rejected cases")
        chk.part("cases", n=n, variants=nv, rejected=rej)
        chk.assumptions += ["JAX 0.6.2 CPU; a ConcretizationTypeError / TracerBoolConversionError shows up as a foreign exception "
                            "and therefore as a disagreement"]
    except MachineryFailure as e:
        return chk.abort(str(e))
    return chk.finish()
