"""C16 - '?' axes are per-leaf-position axes of exactly one structured PyTree."""
from .common import Check, MachineryFailure
from . import pytree_rows as P

# second (and later) trees checked against contexts in which an earlier tree bound T and per-leaf sizes
QUICK = dict(Mode="leaf", Depth=2, Width=2, NodeKinds={"tuple"}, AtomSet={"int", "arr2", "arr3", "arr23"}, SmallDepth=1,
             LeafSet={"arrQ", "arrQV", "uQ", "tupQ", "ptQ", "arrQa", "arraQ", "arrBQV"},
             MemoSet={"empty", "a2", "qT23", "qT23a", "qTv", "qTbv"})
# beneath two nested structured PyTrees: AnnotationError as soon as the inner one has a leaf
NESTED = dict(Mode="leaf", Depth=2, Width=2, NodeKinds={"tuple"}, AtomSet={"arr2", "arr3"}, SmallDepth=1,
              LeafSet={"ptSQ", "ptSA"}, MemoSet={"empty", "qT23"})
THOROUGH = dict(Mode="leaf", Depth=2, Width=2, NodeKinds={"tuple", "dict", "list"}, AtomSet={"int", "arr2", "arr3", "arr23"},
                SmallDepth=1, LeafSet={"arrQ", "arrQV", "uQ", "tupQ", "ptQ", "arrQa", "arraQ", "arrA"},
                MemoSet={"empty", "a2", "a3", "qT23", "qT23a", "qTv"})


def main(tier):
    chk = Check("C16", tier)
    try:
        n, nb = P.run_table(chk, "C16", QUICK, "quick", P.LEAF_INVS)
        n2, nb2 = P.run_table(chk, "C16", NESTED, "nested", ["Rollback", "NoneAccepted", "Monotone"])
        if tier == "thorough":
            P.run_table(chk, "C16", THOROUGH, "thorough", P.LEAF_INVS)
        chk.cov["distinct_nontrivial"] = nb + nb2
        chk.cov["exhaustive"] = True
        chk.cov["rule"] = ("all trees of depth<=2/width<=2 over tuples and {int, f[2], f[3], f[2,3]} x leaf types containing ?a / *?v "
                           "alone, in a union, in a tuple, in a structure-less PyTree, next to a plain axis of the same name x "
                           "{PyTree[L], PyTree[L,'T']} x contexts in which an earlier tree already bound T=(*,*) with per-leaf sizes "
                           "(and a plain a=3); nested structured PyTrees; non-trivial = accepted rows with bindings")
        chk.assumptions += ["per-leaf keys are abstracted from the storage keys '(Leaf i in structure S) name' by a regular expression",
                            "a structured inner PyTree is explored only over trees all of whose atoms are arrays"]
    except MachineryFailure as e:
        return chk.abort(str(e))
    return chk.finish()
