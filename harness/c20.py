"""C20 - annotations survive pickling and copying with their meaning intact.

TLC: JtPickle (RoundTrip for the reducer that carries the effective dtypes and by-reference
sentinels; the outer-category reducer (D5) and by-value sentinels (D15) are refuted).
Binding: each annotation is built for real, sent through pickle (protocols 2..5), cloudpickle,
copy.copy, copy.deepcopy, and pickle / cloudpickle INTO ANOTHER PROCESS; the acceptance vector of
the reconstruction over (dtype class, shape) probes is decided by TLC from the annotation's
definition alone (Rows_JtDtypes: intersection of categories + 's2 s1'), and must also equal the
original's, whose own vector must be unchanged afterwards."""
import base64
import copy
import itertools
import json
import os
import pickle
import random
import subprocess
import tempfile
import shutil

from . import tlc
from .common import Check, MachineryFailure, validate_rows, PY, VERIF
from . import c15

_P = {}


def probes():
    if not _P:
        _P["p"] = c15.probe_set()
    return _P["p"]


def vector(ann):
    from . import render as R
    return [R.verdict(lambda: R.matches(arr, ann)) for _, arr in probes()]


def main(tier):
    chk = Check("C20", tier)
    tmp = tempfile.mkdtemp(prefix="verif_c20_")
    try:
        import numpy as np
        import cloudpickle
        import jaxtyping
        wd = chk.workdir
        for red, sen, expect in (("effective", "by_reference", None), ("outer", "by_reference", "RoundTrip"),
                                 ("effective", "by_value", "ByValueRoundTrip")):
            cfg = os.path.join(wd, f"pk_{red}_{sen}.cfg")
            tlc.write_cfg(cfg, spec="Spec", constants={"Reducer": red, "Sentinels": sen}, invariants=["RoundTrip", "ByValueRoundTrip"])
            chk.add_tlc(f"JtPickle[{red},{sen}]" + (" (must be refuted)" if expect else ""), tlc.run("JtPickle", cfg, wd, workers=4),
                        expect_violation=expect)
        cats = sorted(n for n in dir(jaxtyping) if isinstance(getattr(jaxtyping, n), type)
                      and issubclass(getattr(jaxtyping, n), jaxtyping.AbstractDtype) and n != "AbstractDtype")
        rng = random.Random(chk.seed)
        dims = ["a", "b a", "_ 3", "... a", "*v", "", "#a", "#d=3", "*d=v", "d=#a b", "?a", "*?v b"]
        anns = []          # (desc, d1 (inner), d2 (outer), s1, s2, annotation)
        for c in cats:
            for s in (dims if tier == "thorough" else rng.sample(dims, 3)):
                anns.append((f"{c}[ndarray,'{s}']", c, c, s, "", getattr(jaxtyping, c)[np.ndarray, s]))
        pairs = list(itertools.product(cats, cats))
        if tier == "quick":
            pairs = rng.sample(pairs, 250)
        for d1, d2 in pairs:
            s1, s2 = rng.choice(dims), rng.choice(["a", "", "_ 3", "b a"])
            try:
                ann = getattr(jaxtyping, d2)[getattr(jaxtyping, d1)[np.ndarray, s1], s2]
            except ValueError:
                continue
            anns.append((f"{d2}[{d1}[ndarray,'{s1}'],'{s2}']", d1, d2, s1, s2, ann))
        # user-defined categories importable by name (harness.user_cats), flat, under / over Shaped and nested in themselves
        from . import user_cats
        for u in sorted(user_cats.SPECS):
            UC = getattr(user_cats, u)
            for s in (dims if tier == "thorough" else rng.sample(dims, 2)):
                anns.append((f"{u}[ndarray,'{s}']", "U:" + u, "U:" + u, s, "", UC[np.ndarray, s]))
            s1, s2 = rng.choice(dims), rng.choice(["a", "", "_ 3", "b a"])
            anns.append((f"Shaped[{u}[ndarray,'{s1}'],'{s2}']", "U:" + u, "Shaped", s1, s2, jaxtyping.Shaped[UC[np.ndarray, s1], s2]))
            anns.append((f"{u}[Shaped[ndarray,'{s1}'],'{s2}']", "Shaped", "U:" + u, s1, s2, UC[jaxtyping.Shaped[np.ndarray, s1], s2]))
            anns.append((f"{u}[{u}[ndarray,'{s1}'],'{s2}']", "U:" + u, "U:" + u, s1, s2, UC[UC[np.ndarray, s1], s2]))
            anns.append((f"Shaped[Shaped[{u}[ndarray,'a'],'b'],'']", "U:" + u, "Shaped", "b a", "",
                         jaxtyping.Shaped[jaxtyping.Shaped[UC[np.ndarray, "a"], "b"], ""]))

        def rowcats(d1, d2):
            out = {}
            for k, u, d in (("d1", "u1", d1), ("d2", "u2", d2)):
                if d.startswith("U:"):
                    out[k], out[u] = "User", user_cats.tla_spec(d[2:])
                else:
                    out[k] = d
            return out
        routes = {"pickle2": lambda a: pickle.loads(pickle.dumps(a, 2)), "pickle5": lambda a: pickle.loads(pickle.dumps(a, 5)),
                  "cloudpickle": lambda a: cloudpickle.loads(cloudpickle.dumps(a)), "copy": copy.copy, "deepcopy": copy.deepcopy}
        def load_after_use(a):
            """the first reconstruction is used (and made transparent) by an old-style decorated generator; a second
            load of the very same bytes must still be an independent annotation with the original meaning"""
            import warnings
            b = pickle.dumps(a)
            first = pickle.loads(b)
            with warnings.catch_warnings():
                warnings.simplefilter("ignore")

                def gen(x: int) -> first:
                    yield x
                jaxtyping.jaxtyped(gen, typechecker=None)
            return pickle.loads(b)
        routes["pickle-again-after-first-copy-was-used"] = load_after_use
        pj = [p[0] for p in probes()]
        rows, direct, xitems, xmeta = [], [], [], []
        rid = 0
        for desc, d1, d2, s1, s2, ann in anns:
            before = vector(ann)
            for rn, f in routes.items():
                try:
                    cp = f(ann)
                    v = vector(cp)
                except BaseException as e:  # noqa
                    v = ["route:" + type(e).__name__]
                after = vector(ann)
                rows.append({"id": rid, "kind": "nest", **rowcats(d1, d2), "s1": c15.DIMS[s1], "s2": c15.DIMS[s2], "probes": pj,
                             "build": "ok", "vec": v, "desc": f"{desc} via {rn}"})
                if not (before == v == after):
                    direct.append((f"{desc} via {rn}", before, v, after))
                rid += 1
            for rn, mod in (("pickle", pickle), ("cloudpickle", cloudpickle)):
                try:
                    blob = base64.b64encode(mod.dumps(ann)).decode()
                except BaseException as e:  # noqa
                    direct.append((f"{desc} via other-process {rn}", before, ["dump:" + type(e).__name__], before))
                    continue
                xitems.append({"route": rn, "blob": blob})
                xmeta.append((desc, d1, d2, s1, s2, before, rn))
        # Union of annotations and a user category importable by name
        import typing
        U = typing.Union[jaxtyping.Float[np.ndarray, "a"], jaxtyping.Int[np.ndarray, "a b"]]
        for rn, f in routes.items():
            try:
                if vector(f(U)) != vector(U):
                    direct.append((f"Union via {rn}", vector(U), vector(f(U)), vector(U)))
            except BaseException as e:  # noqa
                direct.append((f"Union via {rn}", vector(U), ["route:" + type(e).__name__], vector(U)))
        # other process
        ipath = os.path.join(tmp, "items.json")
        json.dump(xitems, open(ipath, "w"))
        env = dict(os.environ)
        env["PYTHONPATH"] = os.environ.get("VERIF_REPO", "/repo") + os.pathsep + VERIF
        p = subprocess.run([PY, os.path.join(VERIF, "harness", "c20_child.py"), VERIF, ipath], capture_output=True, text=True,
                           env=env, timeout=1200)
        line = [l for l in p.stdout.splitlines() if l.startswith("VECS ")]
        if not line:
            raise MachineryFailure("child process produced no vectors:\n" + p.stderr[-800:])
        vecs = json.loads(line[0][5:])
        for (desc, d1, d2, s1, s2, before, rn), v in zip(xmeta, vecs):
            rows.append({"id": rid, "kind": "nest", **rowcats(d1, d2), "s1": c15.DIMS[s1], "s2": c15.DIMS[s2], "probes": pj,
                         "build": "ok", "vec": v, "desc": f"{desc} via other-process {rn}"})
            if v != before:
                direct.append((f"{desc} via other-process {rn}", before, v, before))
            rid += 1
        nproc = tlc.NCPU
        files = []
        for i in range(nproc):
            fp = os.path.join(wd, f"pk_{i}.ndjson")
            with open(fp, "w") as f:
                for r in rows[i::nproc]:
                    f.write(json.dumps(r, separators=(",", ":")) + "\n")
            files.append(fp)
        mism, total = validate_rows(chk, "Rows_JtDtypes", files, name="pickle", canary_field="build", heap="4g")
        want = dict(mism)
        for r in rows:
            if r["id"] in want:
                chk.disagree(f"C20:{r['desc']}:reconstruction-differs-from-definition", {"vec": r["vec"], "spec_expected": want[r["id"]]})
        for desc, b, v, a in direct:
            chk.disagree(f"C20:{desc}:{'original-changed' if b != a else 'copy-differs-from-original'}",
                         {"before": b, "copy": v, "original_after": a})
        chk.cov["traces_validated_against_impl"] = total
        chk.cov["evaluations"] = total
        chk.cov["distinct_nontrivial"] = sum(1 for a in anns if a[1] != a[2])
        chk.cov["rule"] = ("%d annotations (every category flat over several dim strings; %s ordered category pairs nested, with '_' / '...' / "
                           "*v dims) x 5 in-process routes + 2 cross-process routes; non-trivial = nested annotations whose two "
                           "categories differ" % (len(anns), "all" if tier == "thorough" else "250 sampled"))
        chk.sample({"annotation": anns[-1][0], "routes": list(routes) + ["other-process pickle", "other-process cloudpickle"]})
        chk.assumptions += ["meaning compared through 45 (dtype, shape) probes",
                            "user categories (harness.user_cats: names, prefix and exact patterns) are nested only with Shaped or "
                            "themselves"]
    except MachineryFailure as e:
        shutil.rmtree(tmp, ignore_errors=True)
        return chk.abort(str(e))
    shutil.rmtree(tmp, ignore_errors=True)
    return chk.finish()
