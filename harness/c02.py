"""C02 - a checked call is accepted iff one consistent axis assignment exists.

TLC: GreedyIsSat / SolsStep on MC_JtArray (every context x annotation x shape: the greedy walk
accepts iff the filtered solution set is non-empty and the new context denotes exactly that set)
=> by induction the fold over parameters and return value accepts iff the conjunction is
satisfiable, hence independently of the declaration order; the order-freedom instance is also
evaluated by TLC on every executed case (Rows_JtCall).
Binding: each abstract call is executed on real decorated functions in all variants
{typeguard, beartype} x {jaxtyped(typechecker=), jaxtyped(tc(f))} x {def, dataclass} x
{declared order, admissible permutations} x {positional, keyword, reversed keyword}.
"""
import json
import os
import random
from concurrent.futures import ProcessPoolExecutor

from . import tlc
from .common import Check, MachineryFailure, validate_rows

SAT_U = dict(MaxSize=2, Names={"a"}, VNames={"v"}, MaxLen=2, MaxVarRank=1, SymIds=set(), WithQ=False, WithTheorems=True)
SAT_U_THOROUGH = dict(MaxSize=2, Names={"a", "b"}, VNames={"v"}, MaxLen=2, MaxVarRank=2, SymIds=set(), WithQ=False,
                      WithTheorems=True)


def emit_alphabet(chk):
    fpath = os.path.join(chk.workdir, "callalpha.json")
    if os.path.exists(fpath):
        return json.load(open(fpath))
    ecfg = os.path.join(chk.workdir, "emitcall.cfg")
    tlc.write_cfg(ecfg, init="EmitInit", next="EmitNext")
    er = tlc.run("Emit_JtCall", ecfg, chk.workdir, workers=1, env={"VERIF_OUT": fpath})
    if not er.ok or not os.path.exists(fpath):
        raise MachineryFailure("call alphabet emission failed:\n" + er.tail())
    return json.load(open(fpath))


def instantiate(toks, sigma, rng):
    """a shape that plausibly matches (generator bias only - TLC decides every case)"""
    out = []
    for t in toks:
        b, m = t["base"], t["mods"]
        if b["k"] == "dots" or ("*" in m and "_" in m):
            out += [rng.randint(1, 3) for _ in range(rng.randint(0, 2))]
        elif "*" in m:
            s = list(sigma.get("*" + b["nm"], sigma["*v"]))
            if "#" in m and rng.random() < .4 and s:
                s[rng.randrange(len(s))] = 1
            out += s
        elif b["k"] == "int":
            out.append(1 if ("#" in m and rng.random() < .3) else b["v"])
        elif b["k"] == "ident" and "_" not in m:
            out.append(1 if ("#" in m and rng.random() < .3) else sigma[b["nm"]])
        elif b["k"] == "sym":
            out.append(eval_expr(b["e"], sigma))
        else:
            out.append(rng.randint(1, 3))
    return out


def eval_expr(e, sigma):
    k = e[0]
    if k == "i":
        return e[1]
    if k == "n":
        return sigma.get(e[1], 1)
    if k == "a":
        return 2
    x, y = eval_expr(e[1], sigma), eval_expr(e[2], sigma)
    return {"+": x + y, "-": max(x - y, 0), "*": x * y, "//": x // max(y, 1), "/": x // max(y, 1), "min": min(x, y), "max": max(x, y)}[k]


def gen_case(alpha, rng, maxp=5, with_sym=True, symp=.12):
    n = rng.choice([1, 2, 2, 2, 3, 3, 4, 5][: 3 + maxp])
    n = min(n, maxp)
    sigma = {"a": rng.randint(1, 3), "b": rng.randint(1, 3), "*v": [rng.randint(1, 3) for _ in range(rng.randint(0, 2))]}
    params, shapes = [], []
    # parameter names: usually x0.., sometimes the very names used for axes (namespaces must not interact)
    pool = ["a", "b", "v", "c"]
    rng.shuffle(pool)
    use_axis_names = rng.random() < .3
    for i in range(n):
        toks = rng.choice(alpha["alphabet"])
        if with_sym and i > 0 and rng.random() < symp:
            toks = rng.choice(alpha["sym"])
        params.append({"nm": pool[i] if (use_axis_names and i < len(pool)) else f"x{i}", "toks": toks})
        r = rng.random()
        if r < .7:
            shapes.append(instantiate(toks, sigma, rng))
        elif r < .85:
            s = instantiate(toks, sigma, rng)
            if s:
                s[rng.randrange(len(s))] = rng.randint(1, 3)
            shapes.append(s)
        else:
            shapes.append(rng.choice(alpha["shapes"]))
    hasret = rng.random() < .6
    rettoks, retshape = [], []
    if hasret:
        rettoks = rng.choice(alpha["alphabet"] + (alpha["sym"] if with_sym else []))
        retshape = instantiate(rettoks, sigma, rng) if rng.random() < .75 else rng.choice(alpha["shapes"])
    return {"params": params, "shapes": shapes, "hasret": hasret, "rettoks": rettoks, "retshape": retshape, "args": {}}


def gen_variadic_family(rng):
    """three or four uses of ONE variadic name, each with or without '#', the shapes equal / broadcast-compatible / enlarged:
    the hand-over of the broadcastable flag between uses is where order-dependence would hide"""
    T = lambda mods, nm: {"mods": mods, "base": {"k": "ident", "nm": nm, "v": 0, "e": []}}
    n = rng.choice([2, 3, 3, 4])
    S = [rng.randint(1, 3) for _ in range(rng.choice([1, 2, 2]))]

    def variant():
        r = rng.random()
        if r < .35:
            return list(S)
        if r < .55:
            return [1 if rng.random() < .5 else d for d in S]
        if r < .8:
            return [rng.randint(2, 4)] + list(S)            # enlarged: S broadcasts to it
        if r < .9:
            return list(S[1:])
        return [rng.randint(1, 3) for _ in S]
    tail = rng.random() < .3
    mk = lambda: [T(["#", "*"] if rng.random() < .5 else ["*"], "v")] + ([T([], "b")] if tail else [])
    params = [{"nm": f"x{i}", "toks": mk()} for i in range(n)]
    bsz = rng.randint(1, 3)
    shapes = [variant() + ([bsz] if tail else []) for _ in range(n)]
    hasret = rng.random() < .6
    rettoks = mk() if hasret else []
    retshape = (variant() + ([bsz] if tail else [])) if hasret else []
    return {"params": params, "shapes": shapes, "hasret": hasret, "rettoks": rettoks, "retshape": retshape, "args": {}}


def gen_history_case(alpha, rng):
    """a binder parameter and a parameter whose symbolic axis depends on it, instantiated INCONSISTENTLY; the
    sibling family over the binder's axis then contains the one call that is consistent (history dependence:
    an earlier rejection must not be replayed)"""
    k, k2 = rng.sample([1, 2, 3, 4, 5], 2)
    sym = rng.choice([s for s in alpha["sym"] if any(t["base"]["k"] == "sym" and '"a"' in json.dumps(t["base"]["e"]) and
                                                      '"b"' not in json.dumps(t["base"]["e"]) for t in s)])
    binder = [{"mods": [], "base": {"k": "ident", "nm": "a", "v": 0, "e": []}}]
    params = [{"nm": "x0", "toks": binder}, {"nm": "x1", "toks": sym}]
    shapes = [[k], instantiate(sym, {"a": k2, "b": 1, "*v": []}, rng)]
    return {"params": params, "shapes": shapes, "hasret": False, "rettoks": [], "retshape": [], "args": {}, "_vary": (0, 0)}


def sibling(case, rng):
    """same signature (same function objects, same array objects for the untouched parameters), one
    parameter or the result with another shape: earlier calls must not influence later ones"""
    c = json.loads(json.dumps({k: v for k, v in case.items() if k not in ("variants", "id")}))
    j = rng.randrange(len(c["params"]) + (1 if c["hasret"] else 0)) if c["params"] else 0
    def other(s):
        s = list(s)
        if s and rng.random() < .8:
            s[rng.randrange(len(s))] = rng.randint(1, 4)
            return s
        return [rng.randint(1, 3) for _ in range(rng.randint(0, 3))]
    if j < len(c["params"]):
        c["shapes"][j] = other(c["shapes"][j])
    elif c["hasret"]:
        c["retshape"] = other(c["retshape"])
    return c


def sibling_family(case, rng):
    """all variations of ONE axis size of ONE parameter (sizes 1..5): among them is the one that repairs (or
    breaks) the call, with every other argument object reused"""
    c0 = {k: v for k, v in case.items() if k not in ("variants", "id", "_vary")}
    cands = [j for j, s in enumerate(c0["shapes"]) if s]
    if not cands:
        return [sibling(case, rng)]
    if "_vary" in case:
        j, ax = case["_vary"]
    else:
        j = rng.choice(cands)
        ax = rng.randrange(len(c0["shapes"][j]))
    out = []
    for v in range(1, 6):
        if v != c0["shapes"][j][ax]:
            c = json.loads(json.dumps(c0))
            c["shapes"][j][ax] = v
            out.append(c)
    return out


def worker(args):
    alpha, seed, n, out_path, id0, opts = args
    from . import calls
    rng = random.Random(seed)
    k = 0
    with open(out_path, "w") as f:
        while k < n:
            case = gen_variadic_family(rng) if rng.random() < .12 else gen_case(alpha, rng, maxp=opts.get("maxp", 5))
            seq = [case]
            if opts.get("siblings", True):
                seq += [sibling(case, rng), json.loads(json.dumps(case))]
            for c in seq:
                c["variants"] = calls.run_call_variants(c, **opts.get("variants", {}))
                c["id"] = id0 + k
                k += 1
                f.write(json.dumps(c, separators=(",", ":")) + "\n")
    return k


def run_cases(chk, pid, ncases, opts, tag):
    alpha = emit_alphabet(chk)
    nproc = tlc.NCPU
    per = max(1, ncases // nproc)
    jobs = [(alpha, chk.seed * 1009 + i, per, os.path.join(chk.workdir, f"calls_{tag}_{i}.ndjson"), i * 1_000_000, opts)
            for i in range(nproc)]
    with ProcessPoolExecutor(max_workers=nproc) as ex:
        n = sum(ex.map(worker, jobs))
    files = [j[3] for j in jobs]
    mism, total = validate_rows(chk, "Rows_JtCall", files, name=tag, canary_field="none", heap="3g")
    if total != n:
        raise MachineryFailure(f"validated {total} of {n} call rows")
    call_selftest(chk, files)
    want = dict(mism)
    stats = {"ok": 0, "TCE": 0, "AnnErr": 0, "variants": 0, "cross": 0}
    from . import render as R
    for fp in files:
        for line in open(fp):
            r = json.loads(line)
            o = r["variants"][0]["outcome"]
            stats[o] = stats.get(o, 0) + 1
            stats["variants"] += len(r["variants"])
            if len(r["params"]) >= 2 and (o == "ok" or r["variants"][0].get("blamed") not in ("", "x0")):
                stats["cross"] += 1
            if r["id"] in want:
                sig = ", ".join(f"{p['nm']}:'{R.dim_str(p['toks'])}'={s}" for p, s in zip(r["params"], r["shapes"]))
                ret = f" -> '{R.dim_str(r['rettoks'])}'={r['retshape']}" if r["hasret"] else ""
                chk.disagree(f"{pid}:call:({sig}){ret}:bad={sorted(want[r['id']].get('bad', []))[:3]}",
                             {"row": r, "spec": want[r["id"]]})
            if r["id"] % 1_000_000 == 3:
                chk.sample({"signature": [R.dim_str(p["toks"]) for p in r["params"]], "shapes": r["shapes"],
                            "return": R.dim_str(r["rettoks"]) if r["hasret"] else None, "retshape": r["retshape"],
                            "first_variant": r["variants"][0]}, limit=4)
    chk.cov["traces_validated_against_impl"] += stats["variants"]
    chk.cov["evaluations"] += stats["variants"]
    chk.part(f"calls[{tag}]", cases=n, **stats)
    for fp in files:
        os.remove(fp)
    return stats


def call_selftest(chk, files):
    """flip the outcome of one variant of one row: TLC must reject."""
    for line in open(files[0]):
        r = json.loads(line)
        if r["variants"] and r["variants"][0]["outcome"] == "ok":
            r["variants"][0]["outcome"] = "TCE"
            p = os.path.join(chk.workdir, "callcorrupt.ndjson")
            open(p, "w").write(json.dumps(r) + "\n")
            sub = Check(chk.pid, chk.tier)
            try:
                mism, _ = validate_rows(sub, "Rows_JtCall", [p], name="selftest", canary_field="none")
            finally:
                import shutil
                shutil.rmtree(sub.workdir, ignore_errors=True)
            if not mism:
                raise MachineryFailure("binding self-test: corrupted call outcome accepted")
            chk.part("binding_selftest", corrupted_call="rejected")
            return
    raise MachineryFailure("binding self-test: no accepted call in the first file")


def main(tier):
    chk = Check("C02", tier)
    try:
        u = SAT_U if tier == "quick" else SAT_U_THOROUGH
        cfg = os.path.join(chk.workdir, "sat.cfg")
        tlc.write_cfg(cfg, spec="Spec", constants=u, invariants=["GreedyIsSat", "Rollback", "Idempotent"])
        chk.add_tlc("MC_JtArray[GreedyIsSat+SolsStep]", tlc.run("MC_JtArray", cfg, chk.workdir, timeout=3000, heap="12g"))
        st = run_cases(chk, "C02", 4000 if tier == "quick" else 40000, {"maxp": 5}, "c02")
        chk.cov["distinct_nontrivial"] = st["cross"]
        chk.cov["rule"] = ("random signatures of 1..5 array parameters (+return) over a 23+6 annotation alphabet (incl. a multi-axis specifier in the middle, a variadic named like a single axis, true division) emitted by the "
                           "specification, shapes biased towards one consistent assignment; every case executed in all variants; "
                           "non-trivial = cases with >=2 parameters that are accepted or fail at a later parameter / the return value")
        chk.cov["constants"] = {"sat_universe": {k: sorted(v) if isinstance(v, set) else v for k, v in u.items()}}
        chk.assumptions += ["unions are excluded (greedy + rollback is not complete for disjunctions; the property does not claim it)",
                            "old-style failures are any exception of the checker's own classes",
                            "for a permuted declaration only verdict and body-run count are compared"]
    except MachineryFailure as e:
        return chk.abort(str(e))
    return chk.finish()
