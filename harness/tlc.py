"""Running TLC and reading what it prints.

Everything TLC needs on disk (metadir, java tmpdir, generated cfg, row files) lives in a
mkdtemp() directory that the caller removes; nothing is left under /tmp.
"""
import json
import os
import re
import shutil
import subprocess
import tempfile
import time

SPEC_DIR = os.path.join(os.path.dirname(os.path.dirname(os.path.abspath(__file__))), "spec")
CP = "/opt/veriftools/tla/tla2tools.jar:/opt/veriftools/tla/CommunityModules-deps.jar"
NCPU = os.cpu_count() or 4


class TLCResult:
    def __init__(self, rc, out, wall, cmd):
        self.rc, self.out, self.wall, self.cmd = rc, out, wall, cmd
        m = re.search(r"(\d+) states generated, (\d+) distinct states found", out)
        self.generated = int(m.group(1)) if m else 0
        self.distinct = int(m.group(2)) if m else 0
        m = re.search(r"depth of the complete state graph search is (\d+)", out)
        self.depth = int(m.group(1)) if m else 0
        m = re.search(r"TLC2 Version (\S+)", out)
        self.version = m.group(1) if m else "?"
        self.invariant_violated = re.findall(r"Invariant (\S+) is violated", out)
        self.property_violated = re.findall(r"(?:Action property|Temporal properties?|property) (\S+)? ?(?:is|were) violated", out)
        self.assumption_failed = "Assumption" in out and "is false" in out
        self.postcondition_failed = "POSTCONDITION" in out.upper() and "violat" in out.lower()
        self.error_lines = [l for l in out.splitlines() if l.startswith("Error:")]
        self.ok = (rc == 0 and not self.error_lines)
        # `-coverage 1`: <Action line .. of module M>: distinct:generated   (the last report wins)
        self.coverage = {}
        for m in re.finditer(r"^<(\w+) line \d+, col \d+ to line \d+, col \d+ of module \w+>: (\d+):(\d+)", out, re.M):
            self.coverage[m.group(1)] = (int(m.group(2)), int(m.group(3)))

    def printed(self):
        """Values printed with PrintT, parsed. TLC wraps long values over several lines, so a
        value starts at a line beginning with << [ { " and extends until brackets balance."""
        vals = []
        buf, depth = [], 0
        self.unparsed, self.unparsed_text = 0, []
        for l in self.out.splitlines():
            st = l.strip()
            if not buf:
                if not (st.startswith("<<") or st.startswith("[") or st.startswith("{")):
                    continue
            buf.append(st)
            # bracket balance outside string literals
            t = re.sub(r'"(?:[^"\\]|\\.)*"', '""', st)
            depth += t.count("<<") + t.count("[") + t.count("{") + t.count("(")
            depth -= t.count(">>") + t.count("]") + t.count("}") + t.count(")")
            if depth <= 0:
                try:
                    vals.append(parse_tla(" ".join(buf)))
                except Exception:
                    self.unparsed += 1
                    self.unparsed_text.append(" ".join(buf)[:1500])
                buf, depth = [], 0
        return vals

    def tail(self, n=40):
        lines = [l for l in self.out.splitlines()
                 if l.strip() and not re.match(r"(Parsing file|Semantic processing|Linting of)", l)]
        return "\n".join(lines[-n:])


def write_cfg(path, *, spec=None, init=None, next=None, constants=None, invariants=(),
              properties=(), constraints=(), action_constraints=(), view=None,
              postcondition=None, deadlock=False, symmetry=None):
    lines = []
    if spec:
        lines.append(f"SPECIFICATION {spec}")
    if init:
        lines.append(f"INIT {init}")
    if next:
        lines.append(f"NEXT {next}")
    if constants:
        lines.append("CONSTANTS")
        for k, v in constants.items():
            lines.append(f"  {k} {'<-' if isinstance(v, Sub) else '='} {tla_lit(v)}")
    for i in invariants:
        lines.append(f"INVARIANT {i}")
    for p in properties:
        lines.append(f"PROPERTY {p}")
    for c in constraints:
        lines.append(f"CONSTRAINT {c}")
    for c in action_constraints:
        lines.append(f"ACTION_CONSTRAINT {c}")
    if view:
        lines.append(f"VIEW {view}")
    if postcondition:
        lines.append(f"POSTCONDITION {postcondition}")
    if symmetry:
        lines.append(f"SYMMETRY {symmetry}")
    lines.append(f"CHECK_DEADLOCK {'TRUE' if deadlock else 'FALSE'}")
    with open(path, "w") as f:
        f.write("\n".join(lines) + "\n")


class Sub(str):
    """A cfg substitution `Name <- Def` (for constants that are expressions)."""


def tla_lit(v):
    if isinstance(v, Sub):
        return str(v)
    if isinstance(v, bool):
        return "TRUE" if v else "FALSE"
    if isinstance(v, int):
        return str(v)
    if isinstance(v, str):
        return json.dumps(v)
    if isinstance(v, (set, frozenset)):
        return "{" + ", ".join(sorted(tla_lit(x) for x in v)) + "}" if v else "{}"
    if isinstance(v, (list, tuple)):
        return "<<" + ", ".join(tla_lit(x) for x in v) + ">>"
    raise TypeError(v)


def run(module, cfg_path, workdir, *, workers=NCPU, args=(), env=None, timeout=3600,
        heap="8g", depth_first=False, spec_dir=SPEC_DIR):
    """Run TLC on spec/<module>.tla with the given cfg. workdir: scratch dir (metadir etc.)."""
    meta = tempfile.mkdtemp(prefix="meta_", dir=workdir)
    jtmp = tempfile.mkdtemp(prefix="jtmp_", dir=workdir)
    jopts = ["-XX:+UseParallelGC", f"-Xmx{heap}", f"-Djava.io.tmpdir={jtmp}"]
    if spec_dir != SPEC_DIR:      # a generated root module outside /verif/spec still EXTENDS the modules there
        jopts.append(f"-DTLA-Library={SPEC_DIR}")
    if depth_first:
        jopts.append("-Dtlc2.tool.queue.IStateQueue=StateDeque")
    cmd = ["java", *jopts, "-cp", CP, "tlc2.TLC", "-workers", str(workers), "-metadir", meta,
           "-noGenerateSpecTE", "-config", cfg_path, *args, module + ".tla"]
    e = dict(os.environ)
    e.pop("JAVA_TOOL_OPTIONS", None)
    if env:
        e.update({k: str(v) for k, v in env.items()})
    t0 = time.time()
    try:
        p = subprocess.run(cmd, cwd=spec_dir, env=e, capture_output=True, text=True, timeout=timeout)
        out, rc = p.stdout + p.stderr, p.returncode
    except subprocess.TimeoutExpired as ex:
        out = (ex.stdout or b"").decode(errors="replace") if isinstance(ex.stdout, bytes) else (ex.stdout or "")
        out += "\nError: TLC timed out"
        rc = 124
    finally:
        shutil.rmtree(meta, ignore_errors=True)
        shutil.rmtree(jtmp, ignore_errors=True)
    return TLCResult(rc, out, time.time() - t0, " ".join(cmd))


def sany(module, spec_dir=SPEC_DIR):
    p = subprocess.run(["java", "-cp", CP, "tla2sany.SANY", module + ".tla"], cwd=spec_dir,
                       capture_output=True, text=True)
    ok = p.returncode == 0 and "Semantic errors" not in p.stdout and "Parse Error" not in p.stdout \
        and "Fatal errors" not in p.stdout
    return ok, p.stdout + p.stderr


# ---------------------------------------------------------------- TLA+ value parser
_tok = re.compile(r'\s*(<<|>>|\|->|:>|@@|[\[\]{}(),]|"(?:[^"\\]|\\.)*"|-?\d+|[A-Za-z_][A-Za-z0-9_]*)')


def parse_tla(s):
    toks = _tok.findall(s)
    pos = [0]

    def peek():
        return toks[pos[0]] if pos[0] < len(toks) else None

    def eat(t=None):
        x = toks[pos[0]]
        if t is not None and x != t:
            raise ValueError(f"expected {t} got {x}")
        pos[0] += 1
        return x

    def val():
        t = peek()
        if t == "<<":
            eat()
            xs = []
            while peek() != ">>":
                xs.append(val())
                if peek() == ",":
                    eat()
            eat(">>")
            return xs
        if t == "{":
            eat()
            xs = []
            while peek() != "}":
                xs.append(val())
                if peek() == ",":
                    eat()
            eat("}")
            return {"__set__": xs}
        if t == "[":
            eat()
            d = {}
            while peek() != "]":
                k = eat()
                eat("|->")
                d[k] = val()
                if peek() == ",":
                    eat()
            eat("]")
            return d
        if t == "(":
            eat()
            d = {}
            while peek() != ")":
                k = val()
                eat(":>")
                d[k if isinstance(k, (str, int)) else json.dumps(k)] = val()
                if peek() == "@@":
                    eat()
            eat(")")
            return d
        eat()
        if t.startswith('"'):
            return json.loads(t)
        if t == "TRUE":
            return True
        if t == "FALSE":
            return False
        if re.fullmatch(r"-?\d+", t):
            return int(t)
        return t  # model value / identifier

    v = val()
    return v


def unset(v):
    """Convert {"__set__": [...]} wrappers into plain lists, recursively."""
    if isinstance(v, dict):
        if set(v.keys()) == {"__set__"}:
            return [unset(x) for x in v["__set__"]]
        return {k: unset(x) for k, x in v.items()}
    if isinstance(v, list):
        return [unset(x) for x in v]
    return v


def parse_sim_trace(path):
    """Parse a `-simulate file=...` trace file: returns list of (action_line, state dict)."""
    txt = open(path).read()
    out = []
    # states are separated as: STATE_n == \n /\ v = ... \n\n ; preceded by comment with the action
    blocks = re.split(r"\n(?=\\\* <|STATE_)", txt)
    action = None
    for b in blocks:
        b = b.strip()
        if b.startswith("\\*"):
            first, _, rest = b.partition("\n")
            action = first[2:].strip()
            b = rest.strip()
        if b.startswith("STATE_"):
            body = b.split("==", 1)[1]
            st = {}
            for m in re.finditer(r"/\\ (\w+) = (.*?)(?=\n/\\ \w+ = |\Z)", body, re.S):
                st[m.group(1)] = unset(parse_tla(" ".join(m.group(2).split())))
            out.append((action, st))
            action = None
    return out
