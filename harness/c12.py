"""C12 - a check's verdict never depends on earlier, unrelated activity in the process.

TLC: JtFlags (the PyTree check's two transient flags at call-out granularity, faults at every
call-out, nesting; Quiescent / LabelIsInnermostStructured / FlattenStaysOn; the no-finally variant
must be refuted). Binding: a catalogue of operations is run on the implementation with a single
fault (Exception / BaseException) injected at each call-out position, alone and in pairs; after
every history a fixed probe battery is run whose expected verdicts are decided by TLC with the
specification's own operators (Rows_JtArray / Rows_JtPyTree, empty context) - they cannot depend
on the history."""
import io
import json
import os
import pickle
import random
import contextlib
from concurrent.futures import ProcessPoolExecutor

from . import tlc
from .common import Check, MachineryFailure, validate_rows


class UserExc(Exception):
    pass


class UserBase(BaseException):
    pass


def T(mods, k, nm="", v=0):
    return {"mods": mods, "base": {"k": k, "nm": nm, "v": v, "e": []}}


def build_ops():
    import numpy as np
    import jax.tree_util as jtu
    from typing import Any
    from jaxtyping import Float, Int, Shaped, PyTree, jaxtyped, install_import_hook
    from beartype import beartype
    from typeguard import typechecked
    import dataclasses
    from typing import Union as typing_Union

    class Fault:
        def __init__(self):
            self.k, self.cls, self.n = 0, None, 0

        def arm(self, k, cls):
            self.k, self.cls, self.n = k, cls, 0

        def hit(self):
            self.n += 1
            if self.n == self.k:
                self.k = 0
                raise self.cls("injected")
    F = Fault()

    class FaultyArray(np.ndarray):
        @property
        def shape(self):
            F.hit()
            return super().shape

    class Duck:
        shape = (2, 3)

        @property
        def dtype(self):
            F.hit()
            return "float32"

    class FInt:
        def __format__(self, spec):
            F.hit()
            return "3"

    @jtu.register_pytree_node_class
    class FNode:
        def __init__(self, *c):
            self.c = c

        def tree_flatten(self):
            F.hit()
            return self.c, None

        @classmethod
        def tree_unflatten(cls, aux, c):
            return cls(*c)

    class MetaLeaf(type):
        def __instancecheck__(cls, obj):
            F.hit()
            return isinstance(obj, int)

    class FLeaf(metaclass=MetaLeaf):
        pass

    Z = lambda *s: np.zeros(s, np.float32)
    FA = lambda *s: Z(*s).view(FaultyArray)
    SH = Float[np.ndarray, "a b"]            # the annotation object shared with decorated functions
    AVB = Float[np.ndarray, "a *v b"]
    ASYM = Float[np.ndarray, "a {v} a"]
    ANY = Float[Any, "a b"]
    PT = PyTree[Float[np.ndarray, "a"]]
    PTQ = PyTree[Float[np.ndarray, "?a"], "T"]
    PTN = PyTree[PyTree[Float[np.ndarray, "?a"]], "T"]
    PTL = PyTree[FLeaf]

    @jaxtyped(typechecker=None)
    def in_ctx(v, thunk):
        return thunk()

    def op_arr_shape():
        with jaxtyped("context"):
            isinstance(FA(2, 5, 3), AVB)

    def op_arr_shape_free():
        isinstance(FA(2, 5, 3), AVB)

    def op_arr_format():
        in_ctx(FInt(), lambda: isinstance(Z(2, 3, 2), ASYM))

    def op_arr_dtype():
        with jaxtyped("context"):
            isinstance(Duck(), ANY)

    def op_tree_flatten():
        with jaxtyped("context"):
            isinstance((Z(2), FNode(Z(2), Z(2))), PT)

    def op_tree_flatten_free():
        isinstance(FNode(Z(2), FNode(Z(2))), PT)

    @jaxtyped(typechecker=typechecked)
    def flatten_helper(c: tuple) -> tuple:
        return c

    @jtu.register_pytree_node_class
    class HNode:
        def __init__(self, *c):
            self.c = c

        def tree_flatten(self):
            F.hit()
            return flatten_helper(self.c), None          # a decorated call (its own context) in the middle of a flatten

        @classmethod
        def tree_unflatten(cls, aux, c):
            return cls(*c)

    def op_tree_flatten_calls_decorated():
        with jaxtyped("context"):
            isinstance((Z(2), HNode(Z(2), Z(2))), PT)
            isinstance(Z(2), Float[np.ndarray, "a"])

    def op_tree_flatten_calls_decorated_nested():
        with jaxtyped("context"):
            with jaxtyped("context"):
                isinstance(HNode(Z(2), HNode(Z(2))), PT)

    def op_tree_unsortable():
        isinstance({1: Z(2), "a": Z(2)}, PT)

    def op_leaf_instancecheck():
        with jaxtyped("context"):
            isinstance((1, (2, 3)), PTL)

    def op_struct_q():
        with jaxtyped("context"):
            isinstance((FA(2), FA(3)), PTQ)

    def op_nested_q():
        with jaxtyped("context"):
            isinstance(((FA(2), FA(2)), FNode(Z(3))), PTN)

    def op_call_body():
        @jaxtyped(typechecker=typechecked)
        def f(x: SH):
            F.hit()
            return x
        f(Z(2, 3))

    def op_call_checker():
        def tc(fn):
            def w(*a, **k):
                F.hit()
                return fn(*a, **k)
            return w

        @jaxtyped(typechecker=tc)
        def f(x: SH) -> SH:
            return x
        f(Z(2, 3))

    def op_call_illtyped():
        @jaxtyped(typechecker=beartype)
        def f(x: SH, y: SH):
            return x
        try:
            f(Z(2, 3), Z(2, 4))
        except TypeError:
            pass

    def op_dataclass():
        @jaxtyped(typechecker=typechecked)
        @dataclasses.dataclass
        class D:
            x: SH

            def __post_init__(self):
                F.hit()
        D(Z(2, 3))

    def op_decorate_shared():
        @jaxtyped(typechecker=beartype)
        def g(x: SH) -> SH:
            return x

        @jaxtyped(typechecker=typechecked)
        def gen(x: SH) -> SH:
            yield x
        g(Z(2, 3))

    def op_oldgen():
        # old-style decoration of a generator function whose return annotation is the shared object
        import warnings
        with warnings.catch_warnings():
            warnings.simplefilter("ignore")

            @jaxtyped
            @typechecked
            def gen(x: int) -> SH:
                yield 1

    def op_oldgen_union():
        # the same, with an annotation over a Union of array types; a REBUILT annotation of the same spelling must be unaffected
        import warnings
        import jax
        with warnings.catch_warnings():
            warnings.simplefilter("ignore")

            @jaxtyped
            @typechecked
            def gen(x: int) -> Float[typing_Union[np.ndarray, jax.Array], "a b"]:
                yield 1

    def op_pickle():
        pickle.loads(pickle.dumps(SH))
        pickle.loads(pickle.dumps(PT))

    def op_hook():
        h = install_import_hook("verif_nonexistent_pkg", "beartype.beartype")
        h.uninstall()

    ops = {k[3:]: v for k, v in locals().items() if k.startswith("op_")}

    # ---------------- probes
    def probes():
        from . import render as R
        from . import pytree_rows as P
        import jaxtyping
        from jaxtyping import AnnotationError
        out = {"arr": [], "pt": [], "direct": {}}
        # what the history left behind, observed BEFORE the probes themselves open contexts or flatten trees
        left = {"flags": R.flags(), "depth": R.stack_depth()}
        E = {"single": {}, "variadic": {}}

        def arr(tag, ann, toks, obj, objdesc, pre=None, mid=None):
            h = {}

            def body():
                if callable(pre):
                    pre()
                elif pre:
                    isinstance(Z(pre), Float[np.ndarray, "a"])
                h["pre"] = R.observe_memo()[0]
                if mid is not None:
                    # earlier activity IN THE SAME context that is unrelated because it failed: a rejected (or raising)
                    # check; the probe's expected verdict is decided from the bindings in force BEFORE it
                    if isinstance(mid, tuple):      # ("call", thunk): a decorated call - its bindings die with it
                        try:
                            mid[1]()
                        except BaseException as e:  # noqa - the call is well-typed and its body's checks are consistent
                            h["mid"] = "X:" + type(e).__name__
                    else:
                        try:
                            h["mid"] = "F" if mid() is False else "T"
                        except AnnotationError:
                            h["mid"] = "E"
                h["res"] = R.verdict(lambda: R.matches(obj, ann))
                h["post"] = R.observe_memo()[0]
            with jaxtyped("context"):      # a fresh context, so that the resulting bindings can be observed
                body()
            out["arr"].append({"tag": tag, "toks": toks, "obj": objdesc, "pre": h["pre"], "args": {}, "lab": "", "fl": False,
                               "res": h["res"], "post": h["post"], "mid": h.get("mid", "-")})
        a = T([], "ident", "a")
        b = T([], "ident", "b")
        arr("wrong_dtype", Float[np.ndarray, "a"], [a], np.zeros(2, np.int32), {"inst": True, "dtin": False, "shape": [2]})
        arr("wrong_rank", Float[np.ndarray, "a"], [a], Z(2, 3), {"inst": True, "dtin": True, "shape": [2, 3]})
        arr("not_array", Float[np.ndarray, "a"], [a], "str", {"inst": False, "dtin": True, "shape": []})
        arr("q_outside", Float[np.ndarray, "?a"], [T(["?"], "ident", "a")], Z(2), {"inst": True, "dtin": True, "shape": [2]})
        arr("shared_rank", SH, [a, b], Z(2), {"inst": True, "dtin": True, "shape": [2]})
        arr("shared_notarray", SH, [a, b], "str", {"inst": False, "dtin": True, "shape": []})
        arr("shared_ok", SH, [a, b], Z(2, 3), {"inst": True, "dtin": True, "shape": [2, 3]})
        # an annotation that merely WRAPS the shared one (no further axes, no narrowing) is an annotation of its own
        WR = Shaped[SH, ""]
        arr("wrapped_shared_rank", WR, [a, b], Z(2), {"inst": True, "dtin": True, "shape": [2]})
        arr("wrapped_shared_notarray", WR, [a, b], "str", {"inst": False, "dtin": True, "shape": []})
        import jax
        UN = Float[typing_Union[np.ndarray, jax.Array], "a b"]       # built afresh for every probe battery
        arr("rebuilt_union_rank", UN, [a, b], Z(2), {"inst": True, "dtin": True, "shape": [2]})
        arr("rebuilt_union_notarray", UN, [a, b], "str", {"inst": False, "dtin": True, "shape": []})
        arr("ctx_mismatch", Float[np.ndarray, "a"], [a], Z(3), {"inst": True, "dtin": True, "shape": [3]}, pre=2)
        arr("ctx_match", Float[np.ndarray, "a"], [a], Z(2), {"inst": True, "dtin": True, "shape": [2]}, pre=2)
        # rejected checks between the bindings and the probe (same context)
        v = T(["*"], "ident", "v")
        bind_bv = lambda: isinstance(Z(3, 1), Float[np.ndarray, "#*v"])
        bind_v = lambda: isinstance(Z(3, 1), Float[np.ndarray, "*v"])
        mids = {
            "pytree_widen_then_reject": (bind_bv, lambda: isinstance((Z(3, 4), Z(5, 5, 5)), PyTree[Float[np.ndarray, "#*v"]])),
            "pytree_bind_then_reject": (bind_bv, lambda: isinstance((Z(2), Z(3)), PyTree[Float[np.ndarray, "a"]])),
            "array_bind_then_reject": (bind_bv, lambda: isinstance(Z(2, 3), Float[np.ndarray, "a a"])),
            "array_trailing_bind_variadic_reject": (bind_v, lambda: isinstance(Z(4, 4, 2), Float[np.ndarray, "*v a"])),
            "array_widen_then_reject": (bind_bv, lambda: isinstance(Z(3, 4, 2), Float[np.ndarray, "#*v 3"])),
            "array_bind_then_raise": (bind_bv, lambda: isinstance(Z(2, 3), Float[np.ndarray, "a zz+1"])),
            "union_leaf_reject": (bind_bv, lambda: isinstance((Z(2), "s"), PyTree[typing_Union[Float[np.ndarray, "a"], int]])),
        }
        # decorated calls whose BODY binds axes by manual checks: nothing of it survives the call - whatever the
        # signature looks like (no parameter at all, no annotation at all, defaults only)
        def _body():
            assert isinstance(Z(9), Float[np.ndarray, "a"]) and isinstance(Z(5, 5), Float[np.ndarray, "*v"])

        @jaxtyped(typechecker=beartype)
        def call_noparams():
            _body()

        @jaxtyped(typechecker=typechecked)
        def call_unannotated(x, y=3):
            _body()

        @jaxtyped(typechecker=beartype)
        def call_defaults_only(x: int = 1, *args, **kwargs):
            _body()

        @jaxtyped(typechecker=None)
        def call_nochecker():
            _body()
        # a function decorated TWICE (by hand on top of the import hook's decorator): still one call, one context of its own
        def _twice(x: Float[np.ndarray, "a"], y: Float[np.ndarray, "*v"]) -> Float[np.ndarray, "a"]:
            return x
        call_twice = jaxtyped(typechecker=beartype)(jaxtyped(typechecker=typechecked)(_twice))
        call_twice_same = jaxtyped(typechecker=beartype)(jaxtyped(typechecker=beartype)(_twice))
        mids.update({"call_decorated_twice": (bind_bv, ("call", lambda: call_twice(Z(9), Z(5, 5)))),
                     "call_decorated_twice_same_checker": (bind_bv, ("call", lambda: call_twice_same(Z(9), Z(5, 5))))})
        mids.update({"call_noparams": (bind_bv, ("call", call_noparams)),
                     "call_unannotated": (bind_bv, ("call", lambda: call_unannotated(1))),
                     "call_defaults_only": (bind_bv, ("call", call_defaults_only)),
                     "call_nochecker": (bind_bv, ("call", call_nochecker))})
        for mname, (pre_fn, mid) in mids.items():
            arr("mid_" + mname + ":v", Float[np.ndarray, "*v"], [v], Z(3, 1), {"inst": True, "dtin": True, "shape": [3, 1]},
                pre=pre_fn, mid=mid)
            arr("mid_" + mname + ":a", Float[np.ndarray, "a"], [a], Z(7), {"inst": True, "dtin": True, "shape": [7]},
                pre=pre_fn, mid=mid)
        # PyTree probes, in a fresh context
        S0 = {"pieces": [], "dots": "none", "str": ""}
        L = ["arr", [a], "f"]
        for tag, shapes in (("tree_mismatch", ([2], [3])), ("tree_match", ([2], [2]))):
            x = {"k": "tuple", "c": [{"k": "arr", "c": [], "keys": [], "shape": s, "dt": "f"} for s in shapes], "keys": [],
                 "shape": [], "dt": ""}
            h = P.exec_row({"single": {}, "variadic": {}, "pytree": {}}, L, S0, x, None)
            out["pt"].append({"tag": tag, "bare": False, "L": L, "S": S0, "x": x, "pre": h["pre"], "args": {}, "res": h["res"],
                              "post": h["post"], "either": False})
        # DECORATING functions that mention an annotation is not a check of anything: done inside a context, it must not
        # bind the structure name (typecheckers probe hints at decoration time)
        ST = {"pieces": ["T"], "dots": "none", "str": "T"}

        def decorate(hint):
            def f1(x: hint, y: int = 0) -> hint:
                return x

            def f2(x: hint):
                return x

            def f3(x: typing_Union[hint, None] = None):
                return x
            beartype(f1)
            typechecked(f2)
            jaxtyped(typechecker=beartype)(f3)
            jaxtyped(typechecker=typechecked)(f1)
        x = {"k": "tuple", "c": [{"k": "arr", "c": [], "keys": [], "shape": [2], "dt": "f"}] * 2, "keys": [], "shape": [], "dt": ""}
        for tag, LL in (("decorate_in_context", L), ("decorate_in_context_int", ["int"])):
            xx = x if LL is L else {"k": "tuple", "c": [{"k": "int", "c": [], "keys": [], "shape": [], "dt": ""}] * 2, "keys": [],
                                    "shape": [], "dt": ""}
            h = P.exec_row({"single": {}, "variadic": {}, "pytree": {}}, LL, ST, xx, None, mid=decorate)
            out["pt"].append({"tag": tag, "bare": False, "L": LL, "S": ST, "x": xx, "pre": h["pre"], "args": {}, "res": h["res"],
                              "post": h["post"], "either": False})
        buf = io.StringIO()
        with contextlib.redirect_stdout(buf):
            jaxtyping.print_bindings()
        out["direct"] = {"toplevel_bindings": buf.getvalue().strip(), "depth": R.stack_depth(), "flags": R.flags(),
                         "hooked_nested": hooked_nested_probe(), "left_behind": left}
        return out

    return ops, F, probes


_HOOKED = {}


def hooked_nested_probe():
    """a module imported (once per process) under `with install_import_hook(...)`: functions DEFINED LATER by its code
    (a nested def executed on every call) must still be instrumented, whatever hooks came and went meanwhile"""
    import gc
    import importlib
    import sys
    import tempfile
    from jaxtyping import install_import_hook, TypeCheckError
    if "mod" not in _HOOKED:
        d = tempfile.mkdtemp(prefix="verif_c12_")
        name = f"verif_c12_hooked_{os.getpid()}"
        with open(os.path.join(d, name + ".py"), "w") as f:
            f.write("def outer():\n    def inner(x: int):\n        return x\n    return inner\n")
        sys.path.insert(0, d)
        with install_import_hook(name, "beartype.beartype"):
            _HOOKED["mod"] = importlib.import_module(name)
        sys.path.remove(d)
        import shutil
        shutil.rmtree(d, ignore_errors=True)
    gc.collect()
    try:
        inner = _HOOKED["mod"].outer()
        r1 = inner(1)
        try:
            inner("not an int")
            return f"ok:{r1}/accepted"
        except TypeCheckError:
            return f"ok:{r1}/TCE"
    except BaseException as e:  # noqa
        return "Exc:" + type(e).__name__


def worker(args):
    histories, out_path, id0 = args
    rid = id0
    nfired = 0
    with open(out_path, "w") as f:
        for h in histories:
            # fresh annotation objects / classes per history: a history must not be blamed for what an earlier
            # history of the same worker process did to an object they would otherwise share
            ops, F, probes = build_ops()
            fired = []
            kept = []          # the exception objects (and their tracebacks / frames) stay alive until the probes are done
            for (name, k, cls) in h:
                F.arm(k, {"E": UserExc, "B": UserBase, "": None}[cls])
                try:
                    ops[name]()
                    r = "ok"
                except BaseException as e:  # noqa
                    r = type(e).__name__
                    kept.append(e)
                fired.append(r)
                F.arm(0, None)
            nfired += sum(1 for r in fired if r in ("UserExc", "UserBase"))
            p = probes()
            del kept
            f.write(json.dumps({"id": rid, "history": h, "outcomes": fired, "probes": p}, separators=(",", ":")) + "\n")
            rid += 1
    return rid - id0, nfired


def main(tier):
    chk = Check("C12", tier)
    try:
        wd = chk.workdir
        for disc, expect in (("finally", None), ("no_finally", "Quiescent")):
            cfg = os.path.join(wd, f"flags_{disc}.cfg")
            tlc.write_cfg(cfg, spec="Spec", constants=dict(Discipline=disc, MaxLeaves=2, MaxDepth=3),
                          invariants=["Quiescent", "LabelIsInnermostStructured", "FlattenStaysOn"])
            rf = tlc.run("JtFlags", cfg, wd, workers=4, args=["-coverage", "1"])
            chk.add_tlc(f"JtFlags[{disc}]" + (" (must be refuted)" if expect else ""), rf, expect_violation=expect)
            if not expect:
                chk.action_coverage("JtFlags", rf, ["Begin", "SetFlatten", "RestoreFlatten", "NextLeaf", "LeafDone", "End", "Raise"])
        ops, _, _ = build_ops()
        names = sorted(ops)
        singles = [[(n, 0, "")] for n in names]
        for n in names:
            for cls in ("E", "B"):
                for k in range(1, 9):
                    singles.append([(n, k, cls)])
        rng = random.Random(chk.seed)
        pairs = []
        npairs = 400 if tier == "quick" else 6000
        for _ in range(npairs):
            h = []
            for _j in range(rng.choice([2, 2, 3])):
                n = rng.choice(names)
                h.append((n, rng.choice([0, 1, 1, 2, 3, 4, 5]), rng.choice(["E", "B"])))
            pairs.append(h)
        hist = singles + pairs
        nproc = tlc.NCPU
        jobs = [(hist[i::nproc], os.path.join(wd, f"hist_{i}.ndjson"), i * 1_000_000) for i in range(nproc)]
        with ProcessPoolExecutor(max_workers=nproc) as ex:
            outs = list(ex.map(worker, jobs))
        nfired = sum(o[1] for o in outs)
        if nfired < 50:
            raise MachineryFailure(f"only {nfired} injected faults fired")
        # probes -> rows for TLC
        arr_rows, pt_rows, meta = [], [], {}
        rid = 0
        for j in jobs:
            for line in open(j[1]):
                r = json.loads(line)
                for p in r["probes"]["arr"]:
                    if p.get("mid") == "T" or str(p.get("mid", "")).startswith("X:"):
                        # the interposed checks are rejected by construction (whatever happened before in the process);
                        # the interposed calls are well-typed and their bodies' checks consistent in a context of their own
                        chk.disagree(f"C12:history:{hkey(r['history'])}:probe={p['tag']}:interposed-" +
                                     ("check-accepted" if p["mid"] == "T" else "call-raised-" + p["mid"][2:]),
                                     {"history": r["history"], "probe": p["tag"]})
                    p["id"] = rid
                    meta[rid] = (r, p["tag"])
                    arr_rows.append(p)
                    rid += 1
                for p in r["probes"]["pt"]:
                    p["id"] = rid
                    meta[rid] = (r, p["tag"])
                    pt_rows.append(p)
                    rid += 1
                d = r["probes"]["direct"]
                if d.get("hooked_nested", "ok:1/TCE") != "ok:1/TCE":
                    chk.disagree(f"C12:history:{hkey(r['history'])}:probe=hooked_nested_def", {"history": r["history"],
                                 "observed": r["probes"]["direct"], "expected": "inner(1) returns 1, inner('not an int') raises TypeCheckError"})
                lb = d.get("left_behind", {"flags": {}, "depth": 0})
                if (d["toplevel_bindings"] or d["depth"] not in (0, None) or d["flags"].get("flatten") or d["flags"].get("label")
                        or lb["flags"].get("flatten") or lb["flags"].get("label") or lb["depth"] not in (0, None)):
                    chk.disagree(f"C12:history:{hkey(r['history'])}:probe=quiescence", {"history": r["history"], "observed": d})
        def split(rows, stem):
            fs = []
            for i in range(nproc):
                p = os.path.join(wd, f"{stem}_{i}.ndjson")
                with open(p, "w") as f:
                    for x in rows[i::nproc]:
                        f.write(json.dumps(x, separators=(",", ":")) + "\n")
                fs.append(p)
            return fs
        m1, t1 = validate_rows(chk, "Rows_JtArray", split(arr_rows, "parr"), name="probes-arr")
        m2, t2 = validate_rows(chk, "Rows_JtPyTree", split(pt_rows, "ppt"), name="probes-pytree")
        for rid_, exp in m1 + m2:
            r, tag = meta[rid_]
            chk.disagree(f"C12:history:{hkey(r['history'])}:probe={tag}", {"history": r["history"], "outcomes": r["outcomes"],
                                                                          "probe": tag, "spec_expected": exp})
        chk.cov["traces_validated_against_impl"] = t1 + t2
        chk.cov["evaluations"] = len(hist)
        chk.cov["distinct_nontrivial"] = nfired
        chk.cov["rule"] = ("histories = every operation of the catalogue alone without fault and with a fault at call-out position "
                           "1..8 x {Exception, BaseException}, plus random histories of 2-3 faulted operations; after each history a "
                           "battery of about 45 probe checks (fresh-context verdicts, checks after interposed rejected checks / decorated "
                           "calls / decoration in the same context, a hooked module's nested def, a wrapped shared annotation) + quiescence "
                           "observed before and after the battery; non-trivial = injected faults that actually fired")
        chk.sample({"history": hist[len(names) + 3], "probes": [p["tag"] for p in arr_rows[:9]]})
        chk.part("histories", total=len(hist), operations=names, faults_fired=nfired, probe_rows=t1 + t2)
        chk.assumptions += ["call-outs: .shape / .dtype of array-likes, __format__ of {args}, custom tree_flatten, leaf "
                            "__instancecheck__, the wrapped function, the typechecker, __post_init__",
                            "probe expectations are computed by TLC from the specification with an empty context"]
    except MachineryFailure as e:
        return chk.abort(str(e))
    return chk.finish()


def hkey(h):
    return "[" + ",".join(f"{n}@{k}{c}" if k else n for n, k, c in h) + "]"
