"""C09 - PyTree structure names bind, compose, prefix and suffix exactly as documented."""
import itertools
import json
import os
import random

from . import tlc
from .common import Check, MachineryFailure, validate_rows
from . import pytree_rows as P

QUICK = dict(Mode="struct", Depth=2, Width=2, NodeKinds={"tuple", "dict"}, AtomSet={"int"}, SmallDepth=1,
             LeafSet={"int"}, MemoSet={"empty"})
THOROUGH = [dict(Mode="struct", Depth=2, Width=2, NodeKinds={"tuple", "list", "dict"}, AtomSet={"int"}, SmallDepth=1,
                 LeafSet={"int"}, MemoSet={"empty"}),
            dict(Mode="struct", Depth=2, Width=2, NodeKinds={"tuple", "nt", "cust"}, AtomSet={"int"}, SmallDepth=1,
                 LeafSet={"int"}, MemoSet={"empty"})]

BIND_U = dict(Mode="leaf", Depth=1, Width=2, NodeKinds={"tuple", "dict"}, AtomSet={"arr2", "arr3", "arr23"}, SmallDepth=1,
              LeafSet={"uAshV", "arrA", "any"}, MemoSet={"empty", "a2"})
BIND_U2 = dict(Mode="leaf", Depth=2, Width=2, NodeKinds={"tuple"}, AtomSet={"int", "str"}, SmallDepth=1,
               LeafSet={"uSpt", "uptS", "uis"}, MemoSet={"empty"})
PIECES = {"id": ["T", "S", "foo_1"], "dots": ["..."], "bad": ["1bad", "a-b", "T,", "..", "....", "T...", "...T", "......", "T.", "...S...", "T...S"]}


def struct_strings(chk):
    """every structure string of <= 3 pieces over {identifier, '...', non-identifier}: ValueError iff the
    specification says so (decided by TLC: StructStringAllowed)."""
    from jaxtyping import PyTree
    rng = random.Random(chk.seed)
    rows = []
    rid = 0
    for n in range(0, 4):
        for kinds in itertools.product(["id", "dots", "bad"], repeat=n):
            # every spelling of every piece when there is at most one non-identifier piece, a sample otherwise
            if sum(k == "bad" for k in kinds) <= 1:
                combos = [list(c) for c in itertools.product(*[PIECES[k] if k == "bad" else [rng.choice(PIECES[k])] for k in kinds])]
            else:
                combos = [[rng.choice(PIECES[k]) for k in kinds] for _ in range(4)]
            for pieces in combos:
                sep = rng.choice([" ", "  ", "\t", " \n "])
                s = rng.choice(["", " "]) + sep.join(pieces) + rng.choice(["", " ", "\t"])
                try:
                    PyTree[int, s]
                    b = "ok"
                except ValueError:
                    b = "ValueError"
                except BaseException as e:  # noqa
                    b = "Exc:" + type(e).__name__
                rows.append({"id": rid, "pieces": list(kinds), "str": s, "build": b})
                rid += 1
    # non-string structure specs
    for x in [3, None, ("T",), b"T"]:
        try:
            PyTree[int, x]
            b = "ok"
        except ValueError:
            b = "ValueError"
        except BaseException as e:  # noqa
            b = "Exc:" + type(e).__name__
        rows.append({"id": rid, "pieces": ["nonstr"], "str": repr(x), "build": b})
        rid += 1
    p = os.path.join(chk.workdir, "structstr.ndjson")
    with open(p, "w") as f:
        for r in rows:
            f.write(json.dumps(r) + "\n")
    mism, total = validate_rows(chk, "Rows_JtStructStr", [p], name="structstr", canary_field="none")
    want = dict(mism)
    for r in rows:
        if r["id"] in want:
            chk.disagree(f"C09:structstr:{r['str']!r}:build={r['build']}", {"row": r, "spec_allows": want[r["id"]]})
    chk.cov["traces_validated_against_impl"] += total
    chk.cov["evaluations"] += total
    chk.part("structure_strings", rows=total)


def main(tier):
    chk = Check("C09", tier)
    try:
        n, nb = P.run_table(chk, "C09", QUICK, "quick", P.STRUCT_INVS)
        struct_strings(chk)
        # first-use binding of T must survive whatever the leaf checks do to the context (a union member
        # that is rejected after binding and rolled back): leaf-mode table with S = 'T'
        P.run_table(chk, "C09", BIND_U, "bind", ["Rollback", "Monotone", "Idempotent"])
        # ... and whatever the is_leaf tests do while flattening (a PyTree member of a union rejecting a subtree)
        P.run_table(chk, "C09", BIND_U2, "bind-union-pytree", ["Rollback", "Monotone", "Idempotent"])
        if tier == "thorough":
            from . import suite
            suite.validate_suite_pytrees(chk, "C09")      # the PyTree checks of the repository's own tests
            for i, u in enumerate(THOROUGH):
                n2, nb2 = P.run_table(chk, "C09", u, f"thorough{i}", P.STRUCT_INVS)
                nb += nb2
        chk.cov["distinct_nontrivial"] = nb
        chk.cov["exhaustive"] = True
        chk.cov["rule"] = ("all (t bound to T | unbound, s bound to S | unbound, form, candidate x): t,s trees of depth<=1, x trees of "
                           "depth<=2 (width<=2), 7 forms; each executed on the code after binding T,S by accepted checks, "
                           "re-decided by TLC; all structure strings of <=3 pieces; non-trivial = accepted rows")
        chk.cov["constants"] = {"quick": {k: sorted(v) if isinstance(v, set) else v for k, v in QUICK.items()}}
        chk.assumptions += ["T and S range over depth<=1 trees only (depth 2 gives 3e10 rows)",
                            "strings with '...' at both ends or '...' alone have no documented meaning: ValueError or acceptance"]
    except MachineryFailure as e:
        return chk.abort(str(e))
    return chk.finish()
