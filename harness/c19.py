"""C19 - disabling checks makes decorated code behave exactly like plain code.

TLC: JtSwitch (switch updates with every spelling, decoration before/after toggling, no_type_check
above/below, well/ill-typed calls; all sequences of 4 actions) + JtCallShape rows with the switch on
(flavour "disabled": every signature shape x call shape, ill-typed included, must equal the
undecorated function). Binding: behaviours replayed in-process through config.update; every
spelling also through JAXTYPING_DISABLE in sub-processes."""
import json
import os
import subprocess
import sys
import typing
from concurrent.futures import ProcessPoolExecutor, ThreadPoolExecutor

from . import tlc
from .common import Check, MachineryFailure, PY
from . import c07


def pyval(v):
    return True if v == "bool:True" else False if v == "bool:False" else None if v == "None" else v


def replay_chunk(behs):
    import numpy as np
    from jaxtyping import Float, jaxtyped, TypeCheckError, config
    from beartype import beartype
    from typeguard import typechecked
    A = Float[np.ndarray, "a"]
    good, bad = np.zeros(2, np.float32), np.zeros((2, 2), np.float32)
    out = []
    PROBE = []
    import importlib, tempfile, shutil, itertools
    from jaxtyping import install_import_hook
    hookdir = tempfile.mkdtemp(prefix="verif_c19_")
    sys.path.insert(0, hookdir)
    modno = itertools.count()
    MODSRC = ("import numpy as np\nfrom jaxtyping import Float\nA = Float[np.ndarray, 'a']\ngood = np.zeros(2, np.float32)\n"
              "PROBE = []\ndef f(x: A, y: A = good) -> A:\n    PROBE.append(isinstance(np.zeros(5, np.float32), A))\n    return x\n")
    for bi, b in enumerate(behs):
        config.update("jaxtyping_disable", False)
        fn = None
        obs = []
        tc = beartype if bi % 2 else typechecked
        for a in b["hist"]:
            if a["op"] == "update":
                try:
                    config.update(a["item"], pyval(a["v"]))
                    obs.append("ok")
                except ValueError:
                    obs.append("ValueError")
                except BaseException as e:  # noqa
                    obs.append("Exc:" + type(e).__name__)
            elif a["op"] == "decorate":
                def f(x: A, y: A = good) -> A:
                    PROBE.append(isinstance(np.zeros(5, np.float32), A))
                    return x
                if a["kind"] == "hooked":
                    # a module imported under the import hook NOW (whatever the switch says at this moment)
                    name = f"verif_c19_mod_{os.getpid()}_{next(modno)}"
                    open(os.path.join(hookdir, name + ".py"), "w").write(MODSRC)
                    importlib.invalidate_caches()
                    with install_import_hook(name, "beartype.beartype" if bi % 2 else "typeguard.typechecked"):
                        mod = importlib.import_module(name)
                    mod.PROBE = PROBE
                    fn = mod.f
                    os.remove(os.path.join(hookdir, name + ".py"))
                    sys.modules.pop(name, None)
                elif a["kind"] == "plain":
                    fn = jaxtyped(typechecker=tc)(f)
                elif a["kind"] == "ntc_above":
                    fn = typing.no_type_check(jaxtyped(typechecker=tc)(f))
                else:
                    fn = jaxtyped(typechecker=tc)(typing.no_type_check(f))
                obs.append("ok")
            else:
                arg = good if a["typed"] == "well" else bad
                del PROBE[:]
                try:
                    if a["outer"]:
                        with jaxtyped("context"):
                            assert isinstance(np.zeros(3, np.float32), A)
                            r = fn(arg)
                    else:
                        r = fn(arg)
                    obs.append(("ok:" + "".join("T" if p else "F" for p in PROBE)) if r is arg else "wrong-result")
                except TypeCheckError:
                    obs.append("TCE")
                except BaseException as e:  # noqa
                    obs.append("Exc:" + type(e).__name__)
        config.update("jaxtyping_disable", False)
        if obs != b["obs"]:
            out.append({"program": b["hist"], "expected": b["obs"], "observed": obs})
    shutil.rmtree(hookdir, ignore_errors=True)
    return out, len(behs)


ENV_PROBE = r'''
import sys, json
try:
    import numpy as np
    from jaxtyping import Float, jaxtyped, TypeCheckError
    from beartype import beartype
    @jaxtyped(typechecker=beartype)
    def f(x: Float[np.ndarray, "a"]): return 1
    try:
        f(np.zeros((2, 2))); a = "disabled"
    except TypeCheckError: a = "enabled"
    # a hooked module must follow the same switch
    import os, tempfile, importlib
    d = tempfile.mkdtemp()
    open(os.path.join(d, "verif_hooked_mod.py"), "w").write("def g(x: int):\n    return x\n")
    sys.path.insert(0, d)
    from jaxtyping import install_import_hook
    with install_import_hook("verif_hooked_mod", "beartype.beartype"):
        import verif_hooked_mod
    try:
        verif_hooked_mod.g("no int"); b = "disabled"
    except TypeCheckError: b = "enabled"
    import shutil; shutil.rmtree(d, ignore_errors=True)
    print(a if a == b else f"function:{a}/hooked-module:{b}")
except ValueError: print("ValueError")
except BaseException as e: print("Exc:" + type(e).__name__)
'''


def env_runs(chk):
    spell = {"1": "disabled", "0": "enabled", "true": "disabled", "false": "enabled", "TRUE": "disabled", "False": "enabled",
             "tRuE": "disabled", "yes": "ValueError", "2": "ValueError", "": "ValueError", "on": "ValueError", "None": "ValueError",
             None: "enabled"}
    # the expectation above is only the rendering of ParseSwitch; it is re-decided by TLC below
    def one(v):
        env = dict(os.environ)
        env.pop("JAXTYPING_DISABLE", None)
        if v is not None:
            env["JAXTYPING_DISABLE"] = v
        p = subprocess.run([PY, "-c", ENV_PROBE], capture_output=True, text=True, env=env, timeout=900)
        return v, (p.stdout.strip().splitlines() or ["?"])[-1]
    with ThreadPoolExecutor(max_workers=8) as ex:
        res = list(ex.map(one, list(spell)))
    rows = []
    for v, got in res:
        rows.append({"v": v if v is not None else "<unset>", "got": got})
    return rows


def main(tier):
    chk = c07._main_generic(tier, "C19")
    if isinstance(chk, int):
        return chk
    try:
        wd = chk.workdir = __import__("tempfile").mkdtemp(prefix="verif_C19b_")
        cfg = os.path.join(wd, "sw.cfg")
        tlc.write_cfg(cfg, spec="Spec", constants={"MaxSteps": 50, "Reduced": False}, view="View", invariants=["DisabledIsPlain"])
        rs = tlc.run("JtSwitch", cfg, wd, workers=4, args=["-coverage", "1"])
        chk.add_tlc("JtSwitch", rs)
        chk.action_coverage("JtSwitch", rs, ["Update", "Decorate", "Call"])
        steps = 4
        cfg2 = os.path.join(wd, "swe.cfg")
        tlc.write_cfg(cfg2, spec="Spec", constants={"MaxSteps": steps, "Reduced": False}, constraints=["Emit"])
        res = tlc.run("JtSwitch", cfg2, wd, workers=4, heap="8g")
        behs = [json.loads(v[1]) for v in res.printed() if isinstance(v, list) and len(v) == 2 and v[0] == "BEH"]
        if not behs:
            raise MachineryFailure("no JtSwitch behaviours emitted\n" + res.tail())
        chk.add_tlc(f"JtSwitch[emit {steps}]", res)
        # longer behaviours (switch off - call - switch on - call again ...) by simulation
        cfg3 = os.path.join(wd, "sws.cfg")
        tlc.write_cfg(cfg3, spec="Spec", constants={"MaxSteps": 8, "Reduced": False}, constraints=["Emit"])
        res3 = tlc.run("JtSwitch", cfg3, wd, workers=1, args=["-simulate", f"num={4000 if tier == 'quick' else 60000}", "-depth", "9",
                                                                "-seed", str(chk.seed + 11)])
        sims = [json.loads(v[1]) for v in res3.printed() if isinstance(v, list) and len(v) == 2 and v[0] == "BEH"]
        if not sims:
            raise MachineryFailure("no simulated JtSwitch behaviours\n" + res3.tail())
        behs += sims
        # every sequence of 6 actions over the reduced alphabet (on / off / decorate / call well / call ill)
        cfg4 = os.path.join(wd, "swr.cfg")
        tlc.write_cfg(cfg4, spec="Spec", constants={"MaxSteps": 6, "Reduced": True}, constraints=["Emit"])
        res4 = tlc.run("JtSwitch", cfg4, wd, workers=4, heap="8g")
        red = [json.loads(v[1]) for v in res4.printed() if isinstance(v, list) and len(v) == 2 and v[0] == "BEH"]
        if not red:
            raise MachineryFailure("no reduced JtSwitch behaviours\n" + res4.tail())
        chk.add_tlc("JtSwitch[reduced alphabet, 6 steps]", res4)
        behs += red
        nproc = tlc.NCPU
        with ProcessPoolExecutor(max_workers=nproc) as ex:
            outs = list(ex.map(replay_chunk, [behs[i::nproc] for i in range(nproc)]))
        for bad, _ in outs:
            for b in bad[:50]:
                prog = " ; ".join(a["op"] + ":" + (a["item"] + "=" if a.get("item", "jaxtyping_disable") != "jaxtyping_disable" else "")
                                  + str(a.get("v", a.get("kind", a.get("typed")))) + ("@ctx" if a.get("outer") else "") for a in b["program"])
                chk.disagree(f"C19:switch:{prog}", b)
        # environment variable in sub-processes; ParseSwitch decides (evaluated by TLC through the emitted behaviours'
        # first update step: the same spellings) - compare with the in-process result of the same spelling
        inproc = {}
        for b in behs:
            a, o = b["hist"][0], b["obs"][0]
            if a["op"] == "update" and a["item"] == "jaxtyping_disable":
                inproc[a["v"]] = o
        for r in env_runs(chk):
            v = r["v"]
            if v == "<unset>":
                exp = "enabled"
            elif v in inproc:
                exp = "ValueError" if inproc[v] == "ValueError" else None
            else:
                exp = None
            if exp is None:
                # valid spelling: on/off as TLC's ParseSwitch says (lower-cased family members are in the spelling set)
                fam = {"1": "disabled", "true": "disabled", "TRUE": "disabled", "tRuE": "disabled",
                       "0": "enabled", "false": "enabled", "False": "enabled", "FALSE": "enabled"}
                exp = fam.get(v, "ValueError")
            if r["got"] != exp:
                chk.disagree(f"C19:env:JAXTYPING_DISABLE={v!r}:got={r['got']}", {"expected": exp, "row": r})
        chk.cov["traces_validated_against_impl"] += len(behs)
        chk.cov["evaluations"] += len(behs)
        chk.sample({"switch_program": behs[len(behs) // 3]["hist"], "expected": behs[len(behs) // 3]["obs"]})
        chk.part("switch", behaviours=len(behs), env_spellings=13)
        chk.assumptions += ["the body's manual check distinguishes 'runs in the caller's context' (plain code) from 'runs in a "
                            "context of its own'"]
        import shutil
        shutil.rmtree(wd, ignore_errors=True)
    except MachineryFailure as e:
        return chk.abort(str(e))
    return chk.finish()
