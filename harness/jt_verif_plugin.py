"""pytest plugin (active only with JAXTYPING_VERIF=1): records every array check the repository's
own test-suite performs - annotation (lexed, not interpreted), object summary, context before and
after, transient flags, verdict - as ND-JSON for validation against the specification.
Usage: pytest -p harness.jt_verif_plugin   (PYTHONPATH must contain /verif)"""
import ast
import json
import os
import re

_out = None
_depth = [0]
_n = [0]


def lex_expr(s):
    """symbolic axis text -> expression tree over + - * // min max, ints, names, {arg}; None if outside the fragment"""
    holes = {}

    def repl(m):
        k = f"__arg{len(holes)}__"
        holes[k] = m.group(1)
        return k
    s2 = re.sub(r"\{([A-Za-z_][A-Za-z0-9_]*)\}", repl, s)
    if "{" in s2 or "}" in s2:
        return None
    try:
        node = ast.parse(s2, mode="eval").body
    except SyntaxError:
        return None

    def conv(n):
        if isinstance(n, ast.Constant) and isinstance(n.value, int) and not isinstance(n.value, bool):
            return ["i", n.value]
        if isinstance(n, ast.Name):
            return ["a", holes[n.id]] if n.id in holes else ["n", n.id]
        if isinstance(n, ast.BinOp) and type(n.op) in (ast.Add, ast.Sub, ast.Mult, ast.FloorDiv):
            l, r = conv(n.left), conv(n.right)
            if l is None or r is None:
                return None
            return [{ast.Add: "+", ast.Sub: "-", ast.Mult: "*", ast.FloorDiv: "//"}[type(n.op)], l, r]
        if isinstance(n, ast.Call) and isinstance(n.func, ast.Name) and n.func.id in ("min", "max") and len(n.args) == 2 and not n.keywords:
            l, r = conv(n.args[0]), conv(n.args[1])
            if l is None or r is None:
                return None
            return [n.func.id, l, r]
        return None
    return conv(node)


def lex_dims(dim_str):
    """dim string -> abstract tokens (modifier characters in order, base); no legality / meaning rules"""
    toks = []
    for elem in dim_str.split():
        mods = []
        if elem == "...":
            toks.append({"mods": [], "base": {"k": "dots", "nm": "", "v": 0, "e": []}})
            continue
        while elem:
            c = elem[0]
            if c in "#*_?":
                mods.append(c)
                elem = elem[1:]
            elif elem.count("=") == 1:
                mods.append("=")
                elem = elem.split("=")[1]
            else:
                break
        if elem == "":
            base = {"k": "empty", "nm": "", "v": 0, "e": []}
        elif elem.isidentifier():
            base = {"k": "ident", "nm": elem, "v": 0, "e": []}
        elif re.fullmatch(r"[0-9]+", elem):
            base = {"k": "int", "nm": "", "v": int(elem), "e": []}
        else:
            e = lex_expr(elem)
            if e is None:
                return None
            base = {"k": "sym", "nm": "", "v": 0, "e": e}
        toks.append({"mods": mods, "base": base})
    return toks


_leaf = re.compile(r"^\(Leaf (\d+) in structure (.*?)\) $", re.S)


def _label():
    from jaxtyping import _storage as st
    tp = getattr(st, "_treepath_storage", None)
    v = getattr(tp, "value", None) if tp is not None else None
    if v is None:
        return "", None
    m = _leaf.match(v)
    if m:
        return f"<{m.group(1)}|{m.group(2)}>", v
    return v, v


def _memo(label_raw, label_abs):
    from jaxtyping import _storage as st
    single, variadic, _, args = st.get_shape_memo()

    def key(k):
        if label_raw and k.startswith(label_raw):
            return label_abs + k[len(label_raw):]
        m = re.match(r"^\(Leaf (\d+) in structure (.*?)\) (.*)$", k, re.S)
        return f"<{m.group(1)}|{m.group(2)}>{m.group(3)}" if m else k
    return ({"single": {key(k): int(v) for k, v in single.items() if isinstance(v, int)},
             "variadic": {key(k): {"b": bool(b), "s": [int(i) for i in s]} for k, (b, s) in variadic.items()}},
            {k: v for k, v in args.items() if isinstance(v, int) and not isinstance(v, bool)},
            len(getattr(st._shape_storage, "memo_stack", [])))


def _dtype_cls(obj):
    try:
        import numpy as np
        from harness.c03 import classify_np
        dt = obj.dtype
        if isinstance(dt, np.dtype):
            return classify_np(dt)
        if type(dt).__name__ == "KeyTy" or "key<" in str(dt):
            return {"kind": "key", "name": "prng_key"}
    except Exception:
        pass
    return None


def install():
    global _out
    from jaxtyping import _array_types as at
    from jaxtyping import AnnotationError
    from typing import Any
    d = os.environ.get("VERIF_TRACE_DIR")
    if not d:
        return
    _out = open(os.path.join(d, f"suite_{os.getpid()}.ndjson"), "a")
    orig = at._MetaAbstractArray.__instancecheck_str__

    def wrapped(cls, obj):
        if _depth[0] or cls._skip_instancecheck:
            return orig(cls, obj)
        _depth[0] += 1
        try:
            lab_abs, lab_raw = _label()
            try:
                pre, args, depth = _memo(lab_raw, lab_abs)
                fl = bool(at.get_treeflatten_memo())
            except Exception:
                return orig(cls, obj)
            res, exc = None, None
            try:
                out = orig(cls, obj)
                res = "T" if out == "" else "F"
                return out
            except AnnotationError:
                res = "E"
                raise
            except BaseException as e:  # noqa
                res = "Exc:" + type(e).__name__
                raise
            finally:
                try:
                    post, _, depth2 = _memo(lab_raw, lab_abs)
                    toks = lex_dims(cls.dim_str)
                    if cls.array_type is Any:
                        inst = hasattr(obj, "shape") and hasattr(obj, "dtype")
                    else:
                        try:
                            inst = isinstance(obj, cls.array_type)
                        except Exception:
                            inst = None
                    row = {"id": _n[0], "toks": toks, "cat": cls.dtype.__name__, "cls": _dtype_cls(obj) if inst else {"kind": "other", "name": "-"},
                           "obj": {"inst": inst, "dtin": True, "shape": [int(i) for i in obj.shape] if inst and hasattr(obj, "shape") else []},
                           "pre": pre if depth else {"single": {}, "variadic": {}}, "args": args if depth else {}, "lab": lab_abs, "fl": fl,
                           "res": res, "post": post if depth else {"single": {}, "variadic": {}}, "instack": bool(depth),
                           "test": os.environ.get("PYTEST_CURRENT_TEST", "").split(" ")[0], "dim_str": cls.dim_str}
                    import jaxtyping as _jt
                    row["unsupported"] = (toks is None or inst is None or row["cls"] is None or depth != depth2
                                          or getattr(_jt, row["cat"], None) is not cls.dtype
                                          or (cls.dtypes is not cls.dtype.dtypes and cls.dtypes != cls.dtype.dtypes)  # narrowed by nesting
                                          or any(not isinstance(x, int) for x in getattr(obj, "shape", ()) or ()))
                    if row["unsupported"]:
                        row["toks"] = []
                        row["cls"] = {"kind": "other", "name": "-"}
                    _n[0] += 1
                    _out.write(json.dumps(row, separators=(",", ":")) + "\n")
                except Exception as e:  # noqa - never disturb the test
                    _out.write(json.dumps({"id": _n[0], "unsupported": True, "error": type(e).__name__ + ":" + str(e)[:80]}) + "\n")
                    _n[0] += 1
        finally:
            _depth[0] -= 1
    at._MetaAbstractArray.__instancecheck_str__ = wrapped


_stack_out = None
_tids = {}


def _tid():
    import threading
    i = threading.get_ident()
    if i not in _tids:
        _tids[i] = len(_tids) + 1
    return _tids[i]


def install_stack_events():
    """push / pop of checking contexts, wherever the storage functions are bound (so a module that imported them by
    name is covered too), plus one event per finished test with what is left behind"""
    global _stack_out
    import sys
    import threading
    from jaxtyping import _storage as st
    d = os.environ.get("VERIF_TRACE_DIR")
    if not d:
        return
    _stack_out = open(os.path.join(d, f"stack_{os.getpid()}.ndjson.trace"), "a")
    lock = threading.Lock()

    def depth():
        return len(getattr(st._shape_storage, "memo_stack", []))

    def emit(ev):
        with lock:
            _stack_out.write(json.dumps(ev, separators=(",", ":")) + "\n")
    o_push, o_pop = st.push_shape_memo, st.pop_shape_memo

    def push(arguments):
        r = o_push(arguments)
        emit({"ev": "push", "th": _tid(), "depth": depth()})
        return r

    def pop():
        r = o_pop()
        emit({"ev": "pop", "th": _tid(), "depth": depth()})
        return r
    for m in list(sys.modules.values()):
        if getattr(m, "__name__", "").startswith("jaxtyping"):
            for k, v in list(vars(m).items()):
                if v is o_push:
                    setattr(m, k, push)
                elif v is o_pop:
                    setattr(m, k, pop)
    install_stack_events.emit = emit
    install_stack_events.depth = depth


def pytest_runtest_logreport(report):
    if _stack_out is not None and report.when == "teardown":
        from jaxtyping import _storage as st
        tp = getattr(st, "_treepath_storage", None)
        install_stack_events.emit({"ev": "test_end", "test": report.nodeid, "th": _tid(), "depth": install_stack_events.depth(),
                                   "flatten": bool(st.get_treeflatten_memo()), "label": getattr(tp, "value", None) is not None})


def pytest_configure(config):
    if os.environ.get("JAXTYPING_VERIF") == "1":
        install()
        install_stack_events()


def pytest_unconfigure(config):
    if _out is not None:
        _out.close()
    if _stack_out is not None:
        _stack_out.close()
