"""pytest plugin (active only with JAXTYPING_VERIF=1): records every array check the repository's
own test-suite performs - annotation (lexed, not interpreted), object summary, context before and
after, transient flags, verdict - as ND-JSON for validation against the specification.
Usage: pytest -p harness.jt_verif_plugin   (PYTHONPATH must contain /verif)"""
import ast
import json
import os
import re

_out = None
_depth = [0]
_n = [0]


def lex_expr(s):
    """symbolic axis text -> expression tree over + - * // min max, ints, names, {arg}; None if outside the fragment"""
    holes = {}

    def repl(m):
        k = f"__arg{len(holes)}__"
        holes[k] = m.group(1)
        return k
    s2 = re.sub(r"\{([A-Za-z_][A-Za-z0-9_]*)\}", repl, s)
    if "{" in s2 or "}" in s2:
        return None
    try:
        node = ast.parse(s2, mode="eval").body
    except SyntaxError:
        return None

    def conv(n):
        if isinstance(n, ast.Constant) and isinstance(n.value, int) and not isinstance(n.value, bool):
            return ["i", n.value]
        if isinstance(n, ast.Name):
            return ["a", holes[n.id]] if n.id in holes else ["n", n.id]
        if isinstance(n, ast.BinOp) and type(n.op) in (ast.Add, ast.Sub, ast.Mult, ast.FloorDiv):
            l, r = conv(n.left), conv(n.right)
            if l is None or r is None:
                return None
            return [{ast.Add: "+", ast.Sub: "-", ast.Mult: "*", ast.FloorDiv: "//"}[type(n.op)], l, r]
        if isinstance(n, ast.Call) and isinstance(n.func, ast.Name) and n.func.id in ("min", "max") and len(n.args) == 2 and not n.keywords:
            l, r = conv(n.args[0]), conv(n.args[1])
            if l is None or r is None:
                return None
            return [n.func.id, l, r]
        return None
    return conv(node)


def lex_dims(dim_str):
    """dim string -> abstract tokens (modifier characters in order, base); no legality / meaning rules"""
    toks = []
    for elem in dim_str.split():
        mods = []
        if elem == "...":
            toks.append({"mods": [], "base": {"k": "dots", "nm": "", "v": 0, "e": []}})
            continue
        while elem:
            c = elem[0]
            if c in "#*_?":
                mods.append(c)
                elem = elem[1:]
            elif elem.count("=") == 1:
                mods.append("=")
                elem = elem.split("=")[1]
            else:
                break
        if elem == "":
            base = {"k": "empty", "nm": "", "v": 0, "e": []}
        elif elem.isidentifier():
            base = {"k": "ident", "nm": elem, "v": 0, "e": []}
        elif re.fullmatch(r"[0-9]+", elem):
            base = {"k": "int", "nm": "", "v": int(elem), "e": []}
        else:
            e = lex_expr(elem)
            if e is None:
                return None
            base = {"k": "sym", "nm": "", "v": 0, "e": e}
        toks.append({"mods": mods, "base": base})
    return toks


_leaf = re.compile(r"^\(Leaf (\d+) in structure (.*?)\) $", re.S)


def _label():
    from jaxtyping import _storage as st
    tp = getattr(st, "_treepath_storage", None)
    v = getattr(tp, "value", None) if tp is not None else None
    if v is None:
        return "", None
    m = _leaf.match(v)
    if m:
        return f"<{m.group(1)}|{m.group(2)}>", v
    return v, v


def _memo(label_raw, label_abs):
    from jaxtyping import _storage as st
    single, variadic, _, args = st.get_shape_memo()

    def key(k):
        if label_raw and k.startswith(label_raw):
            return label_abs + k[len(label_raw):]
        m = re.match(r"^\(Leaf (\d+) in structure (.*?)\) (.*)$", k, re.S)
        return f"<{m.group(1)}|{m.group(2)}>{m.group(3)}" if m else k
    return ({"single": {key(k): int(v) for k, v in single.items() if isinstance(v, int)},
             "variadic": {key(k): {"b": bool(b), "s": [int(i) for i in s]} for k, (b, s) in variadic.items()}},
            {k: v for k, v in args.items() if isinstance(v, int) and not isinstance(v, bool)},
            len(getattr(st._shape_storage, "memo_stack", [])))


def _dtype_cls(obj):
    try:
        import numpy as np
        from harness.c03 import classify_np
        dt = obj.dtype
        if isinstance(dt, np.dtype):
            return classify_np(dt)
        if type(dt).__name__ == "KeyTy" or "key<" in str(dt):
            return {"kind": "key", "name": "prng_key"}
    except Exception:
        pass
    return None


def install():
    global _out
    from jaxtyping import _array_types as at
    from jaxtyping import AnnotationError
    from typing import Any
    d = os.environ.get("VERIF_TRACE_DIR")
    if not d:
        return
    _out = open(os.path.join(d, f"suite_{os.getpid()}.ndjson"), "a")
    orig = at._MetaAbstractArray.__instancecheck_str__

    def wrapped(cls, obj):
        if _depth[0] or cls._skip_instancecheck:
            return orig(cls, obj)
        _depth[0] += 1
        try:
            lab_abs, lab_raw = _label()
            try:
                pre, args, depth = _memo(lab_raw, lab_abs)
                fl = bool(at.get_treeflatten_memo())
            except Exception:
                return orig(cls, obj)
            res, exc = None, None
            try:
                out = orig(cls, obj)
                res = "T" if out == "" else "F"
                return out
            except AnnotationError:
                res = "E"
                raise
            except BaseException as e:  # noqa
                res = "Exc:" + type(e).__name__
                raise
            finally:
                try:
                    post, _, depth2 = _memo(lab_raw, lab_abs)
                    toks = lex_dims(cls.dim_str)
                    if cls.array_type is Any:
                        inst = hasattr(obj, "shape") and hasattr(obj, "dtype")
                    else:
                        try:
                            inst = isinstance(obj, cls.array_type)
                        except Exception:
                            inst = None
                    row = {"id": _n[0], "toks": toks, "cat": cls.dtype.__name__, "cls": _dtype_cls(obj) if inst else {"kind": "other", "name": "-"},
                           "obj": {"inst": inst, "dtin": True, "shape": [int(i) for i in obj.shape] if inst and hasattr(obj, "shape") else []},
                           "pre": pre if depth else {"single": {}, "variadic": {}}, "args": args if depth else {}, "lab": lab_abs, "fl": fl,
                           "res": res, "post": post if depth else {"single": {}, "variadic": {}}, "instack": bool(depth),
                           "test": os.environ.get("PYTEST_CURRENT_TEST", "").split(" ")[0], "dim_str": cls.dim_str}
                    import jaxtyping as _jt
                    row["unsupported"] = (toks is None or inst is None or row["cls"] is None or depth != depth2
                                          or getattr(_jt, row["cat"], None) is not cls.dtype
                                          or (cls.dtypes is not cls.dtype.dtypes and cls.dtypes != cls.dtype.dtypes)  # narrowed by nesting
                                          or any(not isinstance(x, int) for x in getattr(obj, "shape", ()) or ()))
                    if row["unsupported"]:
                        row["toks"] = []
                        row["cls"] = {"kind": "other", "name": "-"}
                    _n[0] += 1
                    _out.write(json.dumps(row, separators=(",", ":")) + "\n")
                except Exception as e:  # noqa - never disturb the test
                    _out.write(json.dumps({"id": _n[0], "unsupported": True, "error": type(e).__name__ + ":" + str(e)[:80]}) + "\n")
                    _n[0] += 1
        finally:
            _depth[0] -= 1
    at._MetaAbstractArray.__instancecheck_str__ = wrapped



# ------------------------------------------------------------------ PyTree checks of the repository's own tests
_ptdepth = [0]
_pt_out = None


class _Unsupported(Exception):
    pass


def _abs_leaftype(t):
    """leaf type -> the specification's vocabulary (JtPyTree.TypeMatch); raises _Unsupported outside it"""
    import typing
    import types
    import jaxtyping
    from jaxtyping import AbstractArray
    from jaxtyping import _pytree_type as pt
    if t is int:
        return ["int"]
    if t is str:
        return ["str"]
    if t is typing.Any:
        return ["any"]
    if isinstance(t, type) and issubclass(t, AbstractArray):
        cat = {"Float": "f", "Int": "i", "Shaped": "s"}.get(t.dtype.__name__)
        if cat is None or getattr(jaxtyping, t.dtype.__name__, None) is not t.dtype:
            raise _Unsupported("category " + t.dtype.__name__)
        if t.dtypes is not t.dtype.dtypes and t.dtypes != t.dtype.dtypes:
            raise _Unsupported("narrowed by nesting")
        toks = lex_dims(t.dim_str)
        if toks is None:
            raise _Unsupported("dims " + t.dim_str)
        return ["arr", toks, cat]
    if type(t) is pt._MetaPyTree and hasattr(t, "leaftype"):
        inner = _abs_leaftype(t.leaftype)
        if t.structure is None:
            return ["pt", inner]
        return ["ptS", inner, _abs_struct_spec(t.structure)]
    org = typing.get_origin(t)
    if org is tuple and typing.get_args(t) == (int, int):
        return ["tup2"]
    if org is typing.Union or (hasattr(types, "UnionType") and org is types.UnionType):
        args = typing.get_args(t)
        if len(args) == 2:
            return ["union", _abs_leaftype(args[0]), _abs_leaftype(args[1])]
    raise _Unsupported("leaf type " + repr(t)[:60])


def _array_types_of(t, acc):
    import typing
    from jaxtyping import AbstractArray
    if isinstance(t, type) and issubclass(t, AbstractArray):
        acc.append(t.array_type)
    elif hasattr(t, "leaftype"):
        _array_types_of(t.leaftype, acc)
    else:
        for a in typing.get_args(t) or ():
            _array_types_of(a, acc)
    return acc


def _abs_struct_spec(s):
    if s is None:
        return {"pieces": [], "dots": "none", "str": ""}
    pieces = s.split()
    dots = "none"
    if pieces[0] == "...":
        pieces, dots = pieces[1:], "pre"
    elif pieces[-1] == "...":
        pieces, dots = pieces[:-1], "post"
    return {"pieces": pieces, "dots": dots, "str": " ".join(s.split())}


def _abs_tree(o, array_types):
    """a real tree -> the specification's trees (containers known to JAX by default; atoms int / str / float / array)"""
    import numpy as np
    node = lambda k, c=(), keys=(): {"k": k, "c": list(c), "keys": list(keys), "shape": [], "dt": ""}
    if o is None:
        return node("none")
    if isinstance(o, bool):
        raise _Unsupported("bool leaf")
    if isinstance(o, int):
        return node("int")
    if isinstance(o, str):
        return node("str")
    if isinstance(o, float):
        return node("flt")
    if hasattr(o, "shape") and hasattr(o, "dtype"):
        for at_ in array_types:
            if at_ is not __import__("typing").Any:
                try:
                    if not isinstance(o, at_):
                        raise _Unsupported("array leaf of another array type")
                except TypeError:
                    raise _Unsupported("array type not a class")
        try:
            kind = np.dtype(o.dtype).kind
            name = np.dtype(o.dtype).name
        except Exception:
            raise _Unsupported("dtype")
        if any(not isinstance(i, int) for i in o.shape):
            raise _Unsupported("symbolic shape")
        dt = "f" if (kind == "f" and name in ("float16", "float32", "float64")) else "i" if kind == "i" else None
        if dt is None:
            raise _Unsupported("dtype " + name)
        return {"k": "arr", "c": [], "keys": [], "shape": [int(i) for i in o.shape], "dt": dt}
    if type(o) is tuple:
        return node("tuple", [_abs_tree(c, array_types) for c in o])
    if type(o) is list:
        return node("list", [_abs_tree(c, array_types) for c in o])
    if type(o) is dict:
        if not all(isinstance(k, str) for k in o):
            raise _Unsupported("dict keys")
        ks = sorted(o)
        return node("dict", [_abs_tree(o[k], array_types) for k in ks], ks)
    raise _Unsupported("node " + type(o).__name__)


def _abs_treedef(td):
    import jax.tree_util as jtu
    star = object()

    def conv(o):
        if o is star:
            return {"k": "*", "c": [], "keys": []}
        if o is None:
            return {"k": "none", "c": [], "keys": []}
        if type(o) is tuple:
            return {"k": "tuple", "c": [conv(c) for c in o], "keys": []}
        if type(o) is list:
            return {"k": "list", "c": [conv(c) for c in o], "keys": []}
        if type(o) is dict and all(isinstance(k, str) for k in o):
            ks = sorted(o)
            return {"k": "dict", "c": [conv(o[k]) for k in ks], "keys": ks}
        raise _Unsupported("treedef node " + type(o).__name__)
    return conv(jtu.tree_unflatten(td, [star] * td.num_leaves))


def _pmemo():
    from jaxtyping import _storage as st
    single, variadic, pytree, args = st.get_shape_memo()

    def key(k):
        m = re.match(r"^\(Leaf (\d+) in structure (.*?)\) (.*)$", k, re.S)
        return f"<{m.group(1)}|{m.group(2)}>{m.group(3)}" if m else k
    if any(not isinstance(v, int) for v in single.values()):
        raise _Unsupported("non-int binding")
    return ({"single": {key(k): int(v) for k, v in single.items()},
             "variadic": {key(k): {"b": bool(b), "s": [int(i) for i in s]} for k, (b, s) in variadic.items()},
             "pytree": {k: _abs_treedef(v) for k, v in pytree.items()}},
            {k: v for k, v in args.items() if isinstance(v, int) and not isinstance(v, bool)},
            len(getattr(st._shape_storage, "memo_stack", [])))


def install_pytree():
    """records every OUTERMOST PyTree[...] check of the repository's tests (leaf type, structure spec, tree, context before /
    after, verdict) in the specification's vocabulary; what lies outside it is recorded as unsupported (and counted)"""
    global _pt_out
    from jaxtyping import _pytree_type as pt
    from jaxtyping import AnnotationError
    d = os.environ.get("VERIF_TRACE_DIR")
    if not d:
        return
    _pt_out = open(os.path.join(d, f"pt_{os.getpid()}.ndjson.pt"), "a")
    orig = pt._MetaPyTree.__instancecheck__
    E = {"single": {}, "variadic": {}, "pytree": {}}

    def wrapped(cls, obj):
        if _ptdepth[0] or not hasattr(cls, "leaftype") or obj is None:
            return orig(cls, obj)
        lab_abs, _ = _label()
        if lab_abs or pt.get_treeflatten_memo():
            return orig(cls, obj)        # a leaf check of an enclosing PyTree check that is not ours
        _ptdepth[0] += 1
        try:
            why, pre, args, depth = None, E, {}, 0
            try:
                pre, args, depth = _pmemo()
            except _Unsupported as e:
                why = str(e)
            except Exception as e:  # noqa
                why = "pre:" + type(e).__name__
            res = None
            try:
                out = orig(cls, obj)
                res = "T" if out else "F"
                return out
            except AnnotationError:
                res = "E"
                raise
            except BaseException as e:  # noqa
                res = "Exc:" + type(e).__name__
                raise
            finally:
                row = {"id": _n[0], "test": os.environ.get("PYTEST_CURRENT_TEST", "").split(" ")[0], "hint": cls.__name__[:120]}
                _n[0] += 1
                try:
                    if why is None:
                        post, _, depth2 = _pmemo()
                        if depth != depth2:
                            raise _Unsupported("stack depth changed")
                        L = _abs_leaftype(cls.leaftype)
                        x = _abs_tree(obj, _array_types_of(cls.leaftype, []))
                        row.update(L=L, S=_abs_struct_spec(cls.structure), x=x, pre=pre if depth else E, args=args if depth else {},
                                   res=res, post=post if depth else E, instack=bool(depth), bare=False, unsupported=False)
                    else:
                        raise _Unsupported(why)
                except _Unsupported as e:
                    row.update(unsupported=True, why=str(e))
                except Exception as e:  # noqa - never disturb the test
                    row.update(unsupported=True, why="error:" + type(e).__name__ + ":" + str(e)[:80])
                if row.get("unsupported"):
                    row.update(L=["any"], S=_abs_struct_spec(None), x={"k": "none", "c": [], "keys": [], "shape": [], "dt": ""}, pre=E,
                               args={}, res="T", post=E, instack=False, bare=False)
                _pt_out.write(json.dumps(row, separators=(",", ":")) + "\n")
                _pt_out.flush()
        finally:
            _ptdepth[0] -= 1
    pt._MetaPyTree.__instancecheck__ = wrapped


_stack_out = None
_tids = {}


def _tid():
    import threading
    i = threading.get_ident()
    if i not in _tids:
        _tids[i] = len(_tids) + 1
    return _tids[i]


def install_stack_events():
    """push / pop of checking contexts, wherever the storage functions are bound (so a module that imported them by
    name is covered too), plus one event per finished test with what is left behind"""
    global _stack_out
    import sys
    import threading
    from jaxtyping import _storage as st
    d = os.environ.get("VERIF_TRACE_DIR")
    if not d:
        return
    _stack_out = open(os.path.join(d, f"stack_{os.getpid()}.ndjson.trace"), "a")
    lock = threading.Lock()

    def depth():
        return len(getattr(st._shape_storage, "memo_stack", []))

    def emit(ev):
        with lock:
            _stack_out.write(json.dumps(ev, separators=(",", ":")) + "\n")
    o_push, o_pop = st.push_shape_memo, st.pop_shape_memo

    def push(arguments):
        r = o_push(arguments)
        emit({"ev": "push", "th": _tid(), "depth": depth()})
        return r

    def pop():
        r = o_pop()
        emit({"ev": "pop", "th": _tid(), "depth": depth()})
        return r
    for m in list(sys.modules.values()):
        if getattr(m, "__name__", "").startswith("jaxtyping"):
            for k, v in list(vars(m).items()):
                if v is o_push:
                    setattr(m, k, push)
                elif v is o_pop:
                    setattr(m, k, pop)
    install_stack_events.emit = emit
    install_stack_events.depth = depth


def pytest_runtest_logreport(report):
    if _stack_out is not None and report.when == "teardown":
        from jaxtyping import _storage as st
        tp = getattr(st, "_treepath_storage", None)
        install_stack_events.emit({"ev": "test_end", "test": report.nodeid, "th": _tid(), "depth": install_stack_events.depth(),
                                   "flatten": bool(st.get_treeflatten_memo()), "label": getattr(tp, "value", None) is not None})


def pytest_configure(config):
    if os.environ.get("JAXTYPING_VERIF") == "1":
        install()
        install_stack_events()
        install_pytree()


def pytest_unconfigure(config):
    if _out is not None:
        _out.close()
    if _stack_out is not None:
        _stack_out.close()
