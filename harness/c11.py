"""C11 - the import hook instruments exactly the named packages, only while installed.

TLC: JtHookScope explored over all sequences of install (7 name sets x 3 checkers incl. None),
uninstall, import (8 modules with parents, siblings sharing string prefixes, nested imports);
Sticky / NoHookPlain / PrefixIsNotBeneath. Every behaviour of 3 actions, a seeded sample of the
4-action ones and simulated 8-action behaviours are replayed in-process on a generated package
tree with spy typecheckers that record who decorated what."""
import importlib
import json
import os
import random
import re
import shutil
import sys
import tempfile
from concurrent.futures import ProcessPoolExecutor

from . import tlc
from .common import Check, MachineryFailure

TREE = {
    "foo/__init__.py": "",
    "foo/sub/__init__.py": "",
    "foo/sub/leaf.py": "",
    "foo/mod.py": "import foobar.mod\n",
    "foobar/__init__.py": "",
    "foobar/mod.py": "",
    "foo_x.py": "",
    "plain.py": "import foo.sub.leaf\n",
}
BODY = "def f(x: int):\n    return x\n\n\nclass K:\n    def m(self, x: int):\n        return x\n"
SPY = '''
from beartype import beartype
LOG = []
def A(fn):
    LOG.append(("A", fn.__module__))
    return beartype(fn)
def B(fn):
    LOG.append(("B", fn.__module__))
    return beartype(fn)
'''
MODNAMES = ["foo", "foo.sub", "foo.sub.leaf", "foo.mod", "foobar", "foobar.mod", "foo_x", "plain"]


def keyname(k):
    return ".".join(re.findall(r'"([^"]+)"', k))


def replay_chunk(behs):
    from jaxtyping import install_import_hook, TypeCheckError
    root = tempfile.mkdtemp(prefix="verif_c11_")
    bad = []
    try:
        for rel, pre in TREE.items():
            p = os.path.join(root, rel)
            os.makedirs(os.path.dirname(p), exist_ok=True)
            open(p, "w").write(pre + BODY)
        open(os.path.join(root, "verif_spy.py"), "w").write(SPY)
        sys.path.insert(0, root)
        import verif_spy
        for b in behs:
            for m in MODNAMES:
                sys.modules.pop(m, None)
            hooks = {}
            verif_spy.LOG.clear()
            obs = []
            try:
                for a in b["hist"]:
                    if a["op"] == "install":
                        c = a["checker"]
                        hooks[a["id"]] = install_import_hook([".".join(n) for n in a["names"]],
                                                             None if c == "None" else "verif_spy." + c)
                        obs.append("ok")
                    elif a["op"] == "uninstall":
                        if a["id"] in hooks:
                            hooks[a["id"]].uninstall()
                        obs.append("ok")
                    else:
                        before = {m for m in MODNAMES if m in sys.modules}
                        n0 = len(verif_spy.LOG)
                        try:
                            importlib.import_module(".".join(a["mod"]))
                        except BaseException as e:  # noqa - importing one of these modules never fails
                            obs.append("import raised " + type(e).__name__)
                            continue
                        new = [m for m in MODNAMES if m in sys.modules and m not in before]
                        o = {}
                        for m in new:
                            mod = sys.modules[m]
                            who = {c for c, mm in verif_spy.LOG[n0:] if mm == m}
                            wrapped = hasattr(mod.f, "__wrapped__")
                            if len(who) > 1:
                                o[m] = "both:" + "".join(sorted(who))
                            elif who:
                                o[m] = who.pop()
                            else:
                                o[m] = "None" if wrapped else "plain"
                            # behaviour must agree with the instrumentation
                            try:
                                mod.f("not an int")
                                rejected = False
                            except TypeCheckError:
                                rejected = True
                            except Exception:
                                rejected = "other"
                            if rejected != (o[m] in ("A", "B")):
                                o[m] += f"/ill-typed-call-rejected={rejected}"
                            if hasattr(mod.K.m, "__wrapped__") != (o[m].split("/")[0] != "plain"):
                                o[m] += "/method-instrumentation-differs"
                        obs.append(o)
            finally:
                for h in hooks.values():
                    h.uninstall()
            exp = [({keyname(k): v for k, v in o.items()} if isinstance(o, dict) else ({} if o == [] else o)) for o in b["obs"]]
            if obs != exp:
                bad.append({"program": b["hist"], "expected": exp, "observed": obs})
    finally:
        if root in sys.path:
            sys.path.remove(root)
        for m in MODNAMES + ["verif_spy"]:
            sys.modules.pop(m, None)
        shutil.rmtree(root, ignore_errors=True)
    return bad, len(behs)


def behaviours(chk, steps, simulate=0):
    wd = chk.workdir
    cfg = os.path.join(wd, f"hs_{steps}_{simulate}.cfg")
    tlc.write_cfg(cfg, spec="Spec", constants={"MaxSteps": steps, "MaxHooks": 2 if not simulate else 3},
                  invariants=[] if simulate else ["NoHookPlain", "PrefixIsNotBeneath"],
                  properties=[] if simulate else ["Sticky"], constraints=["Emit"])
    args = ["-simulate", f"num={simulate}", "-depth", str(steps + 1), "-seed", str(chk.seed + 5)] if simulate else []
    if not simulate:
        args = ["-coverage", "1"]
    res = tlc.run("JtHookScope", cfg, wd, workers=1 if simulate else 8, args=args, heap="8g", timeout=1800)
    if not simulate:
        chk.action_coverage(f"JtHookScope[{steps}]", res, ["Install", "Uninstall", "Import"])
    behs = [json.loads(v[1]) for v in res.printed() if isinstance(v, list) and len(v) == 2 and v[0] == "BEH"]
    if not behs:
        raise MachineryFailure("no JtHookScope behaviours:\n" + res.tail())
    if not simulate:
        chk.add_tlc(f"JtHookScope[{steps} steps]", res)
    return behs


PYTEST_TEST = '''
import importlib, json, os, sys
def test_it():
    import verif_spy
    out = {}
    for m in json.loads(os.environ["VERIF_IMPORTS"]):
        importlib.import_module(m)
    for m in %r:
        if m in sys.modules:
            mod = sys.modules[m]
            who = sorted({c for c, mm in verif_spy.LOG if mm == m})
            out[m] = who[0] if len(who) == 1 else ("plain" if not who else "both")
    json.dump(out, open(os.environ["VERIF_OUT"], "w"))
'''


def pytest_route(chk):
    """the same scoping rule through `pytest --jaxtyping-packages=...` (sub-processes)"""
    import subprocess
    from concurrent.futures import ThreadPoolExecutor
    from .common import PY
    root = tempfile.mkdtemp(prefix="verif_c11p_")
    try:
        for rel, pre in TREE.items():
            p = os.path.join(root, rel)
            os.makedirs(os.path.dirname(p), exist_ok=True)
            open(p, "w").write(pre + BODY)
        open(os.path.join(root, "verif_spy.py"), "w").write(SPY)
        open(os.path.join(root, "test_it.py"), "w").write(PYTEST_TEST % (MODNAMES,))
        configs = [(["foo"], "A", ["foo.mod", "foo_x"]), (["foo.sub", "foo_x"], "B", ["plain", "foo_x", "foo.mod"]),
                   (["foobar.mod"], "A", ["foo.mod"]), (["foo", "foobar"], "B", ["foo.sub.leaf", "foobar.mod", "plain"]),
                   (["plain"], "A", ["plain"])]

        def expected(names, c, imports):
            # the specification's Matches on segment sequences, for a single hook installed before any import
            segs = [n.split(".") for n in names]
            loaded = {}

            def load(m):
                if m in loaded:
                    return
                parts = m.split(".")
                for i in range(1, len(parts)):
                    load(".".join(parts[:i]))
                loaded[m] = c if any(parts[:len(s)] == s for s in segs) else "plain"
                for rel, pre in TREE.items():
                    if rel.replace("/__init__.py", "").replace(".py", "").replace("/", ".") == m and pre:
                        load(pre.split()[1])
            for m in imports:
                load(m)
            return loaded

        def one(cfg):
            names, c, imports = cfg
            out = os.path.join(root, f"out_{abs(hash(str(cfg)))}.json")
            env = dict(os.environ, PYTHONPATH=os.environ.get("VERIF_REPO", "/repo") + os.pathsep + root, VERIF_IMPORTS=json.dumps(imports),
                       VERIF_OUT=out)
            p = subprocess.run([PY, "-m", "pytest", "-q", "-p", "no:cacheprovider", 
                                f"--jaxtyping-packages={','.join(names)},verif_spy.{c}", os.path.join(root, "test_it.py")],
                               cwd=root, env=env, capture_output=True, text=True, timeout=1800)
            got = json.load(open(out)) if os.path.exists(out) else {"error": (p.stdout + p.stderr)[-300:]}
            return cfg, got
        with ThreadPoolExecutor(max_workers=5) as ex:
            res = list(ex.map(one, configs))
        for (names, c, imports), got in res:
            if "error" in got:
                raise MachineryFailure("pytest sub-process did not report: " + got["error"])
            exp = expected(names, c, imports)
            if got != exp:
                chk.disagree(f"C11:pytest-option:{','.join(names)}/{c}:imports={imports}", {"expected": exp, "observed": got})
        chk.part("pytest_option", configurations=len(configs))
        return len(configs)
    finally:
        shutil.rmtree(root, ignore_errors=True)


def ipython_route(chk):
    """the IPython magic: JtMagic behaviours replayed on a real InteractiveShell"""
    import ast
    wd = chk.workdir
    cfg = os.path.join(wd, "magic.cfg")
    tlc.write_cfg(cfg, spec="Spec", constants={"MaxSteps": 4}, invariants=["AtMostOne"], constraints=["Emit"])
    res = tlc.run("JtMagic", cfg, wd, workers=2)
    chk.add_tlc("JtMagic", res)
    behs = [json.loads(v[1]) for v in res.printed() if isinstance(v, list) and len(v) == 2 and v[0] == "BEH"]
    if not behs:
        raise MachineryFailure("no JtMagic behaviours:\n" + res.tail())
    root = tempfile.mkdtemp(prefix="verif_c11i_")
    try:
        open(os.path.join(root, "verif_spy.py"), "w").write(SPY)
        sys.path.insert(0, root)
        import verif_spy
        from IPython.core.interactiveshell import InteractiveShell
        from jaxtyping._import_hook import JaxtypingTransformer

        class Other(ast.NodeTransformer):
            pass
        sh = InteractiveShell.instance()
        sh.run_line_magic("load_ext", "jaxtyping")
        n = 0
        for b in behs:
            sh.ast_transformers = []
            obs = []
            for a in b["hist"]:
                if a["op"] == "other":
                    sh.ast_transformers.append(Other())
                    obs.append("ok")
                elif a["op"] == "magic":
                    sh.run_line_magic("jaxtyping.typechecker", "None" if a["c"] == "None" else "verif_spy." + a["c"])
                    obs.append("ok")
                else:
                    verif_spy.LOG.clear()
                    n += 1
                    r = sh.run_cell(f"def cellfn{n}(x: int):\n    return x\n", store_history=False)
                    f = sh.user_ns.get(f"cellfn{n}")
                    who = sorted({c for c, _ in verif_spy.LOG})
                    o = who[0] if len(who) == 1 else ("both" if who else ("None" if hasattr(f, "__wrapped__") else "plain"))
                    if not r.success:
                        o = "cell-failed"
                    obs.append(o)
            njt = sum(isinstance(t, JaxtypingTransformer) for t in sh.ast_transformers)
            if obs != b["obs"] or njt > 1:
                chk.disagree("C11:ipython:" + ";".join(a["op"] + a.get("c", "") for a in b["hist"]),
                             {"expected": b["obs"], "observed": obs, "jaxtyping_transformers": njt})
        chk.part("ipython_magic", behaviours=len(behs))
        return len(behs)
    finally:
        if root in sys.path:
            sys.path.remove(root)
        sys.modules.pop("verif_spy", None)
        shutil.rmtree(root, ignore_errors=True)


def main(tier):
    chk = Check("C11", tier)
    try:
        rng = random.Random(chk.seed)
        b3 = behaviours(chk, 3)
        b4 = behaviours(chk, 4)
        n4 = len(b4)
        if tier == "quick":
            b4 = rng.sample(b4, 6000)
        sims = behaviours(chk, 8, simulate=400 if tier == "quick" else 5000)
        allb = b3 + b4 + sims
        nproc = tlc.NCPU
        with ProcessPoolExecutor(max_workers=nproc) as ex:
            outs = list(ex.map(replay_chunk, [allb[i::nproc] for i in range(nproc)]))
        for bad, _ in outs:
            for b in bad[:40]:
                prog = " ; ".join(a["op"] + ":" + (",".join(".".join(n) for n in a["names"]) + "/" + a["checker"] if a["op"] == "install"
                                                   else ".".join(a["mod"]) if a["op"] == "import" else str(a["id"])) for a in b["program"])
                chk.disagree(f"C11:{prog}", b)
        n = sum(o[1] for o in outs)
        n += pytest_route(chk)
        n += ipython_route(chk)
        chk.cov["traces_validated_against_impl"] = n
        chk.cov["evaluations"] = n
        chk.cov["distinct_nontrivial"] = sum(1 for b in allb if any(isinstance(o, dict) and any(v != "plain" for v in o.values())
                                                                    for o in b["obs"]))
        chk.cov["exhaustive"] = tier != "quick"
        chk.cov["rule"] = ("all %d behaviours of 3 actions, %d of the %d behaviours of 4 actions, %d simulated behaviours of 8 actions; "
                           "non-trivial = behaviours in which at least one module was instrumented" % (len(b3), len(b4), n4, len(sims)))
        chk.sample({"program": b4[0]["hist"], "expected_obs": b4[0]["obs"]})
        chk.assumptions += ["the pytest option is driven for 5 single-hook configurations in sub-processes; the IPython magic through JtMagic "
                            "behaviours on a real InteractiveShell (the string 'None' is what the magic passes for no checker)",
                            "instrumentation is observed through spy typecheckers (who decorated which module) and through "
                            "ill-typed calls", "bytecode caches are off here (C18 covers them)"]
    except MachineryFailure as e:
        return chk.abort(str(e))
    return chk.finish()
