"""C11 - the import hook instruments exactly the named packages, only while installed.

TLC: JtHookScope explored over all sequences of install (7 name sets x 3 checkers incl. None),
uninstall, import (8 modules with parents, siblings sharing string prefixes, nested imports);
Sticky / NoHookPlain / PrefixIsNotBeneath. Every behaviour of 3 actions, a seeded sample of the
4-action ones and simulated 8-action behaviours are replayed in-process on a generated package
tree with spy typecheckers that record who decorated what."""
import importlib
import json
import os
import random
import re
import shutil
import sys
import tempfile
from concurrent.futures import ProcessPoolExecutor

from . import tlc
from .common import Check, MachineryFailure

TREE = {
    "foo/__init__.py": "",
    "foo/sub/__init__.py": "",
    "foo/sub/leaf.py": "",
    "foo/mod.py": "import foobar.mod\n",
    "foobar/__init__.py": "",
    "foobar/mod.py": "",
    "foo_x.py": "",
    "plain.py": "import foo.sub.leaf\n",
}
BODY = "def f(x: int):\n    return x\n\n\nclass K:\n    def m(self, x: int):\n        return x\n"
SPY = '''
from beartype import beartype
LOG = []
def A(fn):
    LOG.append(("A", fn.__module__))
    return beartype(fn)
def B(fn):
    LOG.append(("B", fn.__module__))
    return beartype(fn)
'''
MODNAMES = ["foo", "foo.sub", "foo.sub.leaf", "foo.mod", "foobar", "foobar.mod", "foo_x", "plain"]


def keyname(k):
    return ".".join(re.findall(r'"([^"]+)"', k))


def replay_chunk(behs):
    from jaxtyping import install_import_hook, TypeCheckError
    root = tempfile.mkdtemp(prefix="verif_c11_")
    bad = []
    try:
        for rel, pre in TREE.items():
            p = os.path.join(root, rel)
            os.makedirs(os.path.dirname(p), exist_ok=True)
            open(p, "w").write(pre + BODY)
        open(os.path.join(root, "verif_spy.py"), "w").write(SPY)
        sys.path.insert(0, root)
        import verif_spy
        for b in behs:
            for m in MODNAMES:
                sys.modules.pop(m, None)
            hooks = {}
            verif_spy.LOG.clear()
            obs = []
            try:
                for a in b["hist"]:
                    if a["op"] == "install":
                        c = a["checker"]
                        hooks[a["id"]] = install_import_hook([".".join(n) for n in a["names"]],
                                                             None if c == "None" else "verif_spy." + c)
                        obs.append("ok")
                    elif a["op"] == "uninstall":
                        if a["id"] in hooks:
                            hooks[a["id"]].uninstall()
                        obs.append("ok")
                    else:
                        before = {m for m in MODNAMES if m in sys.modules}
                        n0 = len(verif_spy.LOG)
                        importlib.import_module(".".join(a["mod"]))
                        new = [m for m in MODNAMES if m in sys.modules and m not in before]
                        o = {}
                        for m in new:
                            mod = sys.modules[m]
                            who = {c for c, mm in verif_spy.LOG[n0:] if mm == m}
                            wrapped = hasattr(mod.f, "__wrapped__")
                            if len(who) > 1:
                                o[m] = "both:" + "".join(sorted(who))
                            elif who:
                                o[m] = who.pop()
                            else:
                                o[m] = "None" if wrapped else "plain"
                            # behaviour must agree with the instrumentation
                            try:
                                mod.f("not an int")
                                rejected = False
                            except TypeCheckError:
                                rejected = True
                            except Exception:
                                rejected = "other"
                            if rejected != (o[m] in ("A", "B")):
                                o[m] += f"/ill-typed-call-rejected={rejected}"
                            if hasattr(mod.K.m, "__wrapped__") != (o[m].split("/")[0] != "plain"):
                                o[m] += "/method-instrumentation-differs"
                        obs.append(o)
            finally:
                for h in hooks.values():
                    h.uninstall()
            exp = [({keyname(k): v for k, v in o.items()} if isinstance(o, dict) else ({} if o == [] else o)) for o in b["obs"]]
            if obs != exp:
                bad.append({"program": b["hist"], "expected": exp, "observed": obs})
    finally:
        if root in sys.path:
            sys.path.remove(root)
        for m in MODNAMES + ["verif_spy"]:
            sys.modules.pop(m, None)
        shutil.rmtree(root, ignore_errors=True)
    return bad, len(behs)


def behaviours(chk, steps, simulate=0):
    wd = chk.workdir
    cfg = os.path.join(wd, f"hs_{steps}_{simulate}.cfg")
    tlc.write_cfg(cfg, spec="Spec", constants={"MaxSteps": steps, "MaxHooks": 2 if not simulate else 3},
                  invariants=[] if simulate else ["NoHookPlain", "PrefixIsNotBeneath"],
                  properties=[] if simulate else ["Sticky"], constraints=["Emit"])
    args = ["-simulate", f"num={simulate}", "-depth", str(steps + 1), "-seed", str(chk.seed + 5)] if simulate else []
    res = tlc.run("JtHookScope", cfg, wd, workers=1 if simulate else 8, args=args, heap="8g", timeout=1800)
    behs = [json.loads(v[1]) for v in res.printed() if isinstance(v, list) and len(v) == 2 and v[0] == "BEH"]
    if not behs:
        raise MachineryFailure("no JtHookScope behaviours:\n" + res.tail())
    if not simulate:
        chk.add_tlc(f"JtHookScope[{steps} steps]", res)
    return behs


def main(tier):
    chk = Check("C11", tier)
    try:
        rng = random.Random(chk.seed)
        b3 = behaviours(chk, 3)
        b4 = behaviours(chk, 4)
        n4 = len(b4)
        if tier == "quick":
            b4 = rng.sample(b4, 6000)
        sims = behaviours(chk, 8, simulate=400 if tier == "quick" else 5000)
        allb = b3 + b4 + sims
        nproc = tlc.NCPU
        with ProcessPoolExecutor(max_workers=nproc) as ex:
            outs = list(ex.map(replay_chunk, [allb[i::nproc] for i in range(nproc)]))
        for bad, _ in outs:
            for b in bad[:40]:
                prog = " ; ".join(a["op"] + ":" + (",".join(".".join(n) for n in a["names"]) + "/" + a["checker"] if a["op"] == "install"
                                                   else ".".join(a["mod"]) if a["op"] == "import" else str(a["id"])) for a in b["program"])
                chk.disagree(f"C11:{prog}", b)
        n = sum(o[1] for o in outs)
        chk.cov["traces_validated_against_impl"] = n
        chk.cov["evaluations"] = n
        chk.cov["distinct_nontrivial"] = sum(1 for b in allb if any(isinstance(o, dict) and any(v != "plain" for v in o.values())
                                                                    for o in b["obs"]))
        chk.cov["exhaustive"] = tier != "quick"
        chk.cov["rule"] = ("all %d behaviours of 3 actions, %d of the %d behaviours of 4 actions, %d simulated behaviours of 8 actions; "
                           "non-trivial = behaviours in which at least one module was instrumented" % (len(b3), len(b4), n4, len(sims)))
        chk.sample({"program": b4[0]["hist"], "expected_obs": b4[0]["obs"]})
        chk.assumptions += ["API route only (install_import_hook); the pytest option and the IPython magic call the same finder / transformer",
                            "instrumentation is observed through spy typecheckers (who decorated which module) and through "
                            "ill-typed calls", "bytecode caches are off here (C18 covers them)"]
    except MachineryFailure as e:
        return chk.abort(str(e))
    return chk.finish()
