"""One RUN of a cache history (executed in a fresh interpreter by harness/c18.py).
argv[1] = JSON {"root":dir, "hooked":[...], "checker":"c1"|"c2"|"none", "order":[...], "modules":[...]}"""
import importlib
import json
import sys

cfg = json.loads(sys.argv[1])
sys.dont_write_bytecode = False
sys.path.insert(0, cfg["root"])
import jaxtyping  # noqa: E402
from jaxtyping import install_import_hook, TypeCheckError  # noqa: E402
import beartype  # noqa: E402,F401
# the typechecker packages (verif_spy: c1, verif_spy2: c2) are NOT imported here: the hook names them by a string and
# they are imported when the first decorated function of a hooked module is defined
SPIES = {"c1": "verif_spy", "c2": "verif_spy2"}
# (md5 digests of these two strings share their first 10 hex digits - see harness/c18.py)
CHECKER_STRINGS = {"c1": "verif_spy.c1_1630558", "c2": "verif_spy2.c2_819212"}

lookups = []
import importlib._bootstrap_external as _be  # noqa: E402

hook = None
if cfg["checker"] != "none" and cfg["hooked"]:
    hook = install_import_hook(cfg["hooked"], CHECKER_STRINGS[cfg["checker"]])
sys.dont_write_bytecode = bool(cfg.get("nowrite"))      # libraries above were imported (and cached) already
for m in cfg["order"]:
    try:
        importlib.import_module(m)
    except SyntaxError:
        if m != "X":
            raise
if hook is not None:
    hook.uninstall()
out = {}
LOG = [e for s in SPIES.values() if s in sys.modules for e in sys.modules[s].LOG]
disabled = bool(cfg.get("disabled"))       # JAXTYPING_DISABLE is set in this run's environment
for m in cfg["modules"]:
    if m in sys.modules:
        mod = sys.modules[m]
        who = sorted({c for c, mm in LOG if mm == m})
        try:
            mod.f("not an int")
            rejected = False
        except TypeCheckError:
            rejected = True
        instr = who[0] if len(who) == 1 else ("plain" if not who else "both")
        # code loaded from a cache file does not call the spy again only if ... it always does: decoration happens at
        # module execution, not at compile time; so `who` is reliable. Cross-check with behaviour:
        if rejected != (instr != "plain" and not disabled):
            instr += f"/rejects={rejected}"
        if hasattr(mod.f, "__wrapped__") != (instr.split("/")[0] != "plain"):
            instr += "/wrapped-differs"
        out[m] = {"ver": mod.VERSION, "instr": instr}
print("RESULT " + json.dumps(out))
