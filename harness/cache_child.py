"""One RUN of a cache history (executed in a fresh interpreter by harness/c18.py).
argv[1] = JSON {"root":dir, "hooked":[...], "checker":"c1"|"c2"|"none", "order":[...], "modules":[...]}"""
import importlib
import json
import sys

cfg = json.loads(sys.argv[1])
sys.dont_write_bytecode = False
sys.path.insert(0, cfg["root"])
import jaxtyping  # noqa: E402
from jaxtyping import install_import_hook, TypeCheckError  # noqa: E402
import beartype  # noqa: E402,F401
import verif_spy  # noqa: E402

lookups = []
import importlib._bootstrap_external as _be  # noqa: E402

hook = None
if cfg["checker"] != "none" and cfg["hooked"]:
    hook = install_import_hook(cfg["hooked"], "verif_spy." + cfg["checker"])
sys.dont_write_bytecode = bool(cfg.get("nowrite"))      # libraries above were imported (and cached) already
for m in cfg["order"]:
    try:
        importlib.import_module(m)
    except SyntaxError:
        if m != "X":
            raise
if hook is not None:
    hook.uninstall()
out = {}
for m in cfg["modules"]:
    if m in sys.modules:
        mod = sys.modules[m]
        who = sorted({c for c, mm in verif_spy.LOG if mm == m})
        try:
            mod.f("not an int")
            rejected = False
        except TypeCheckError:
            rejected = True
        instr = who[0] if len(who) == 1 else ("plain" if not who else "both")
        # code loaded from a cache file does not call the spy again only if ... it always does: decoration happens at
        # module execution, not at compile time; so `who` is reliable. Cross-check with behaviour:
        if rejected != (instr != "plain"):
            instr += f"/rejects={rejected}"
        if hasattr(mod.f, "__wrapped__") != (instr.split("/")[0] != "plain"):
            instr += "/wrapped-differs"
        out[m] = {"ver": mod.VERSION, "instr": instr}
print("RESULT " + json.dumps(out))
