"""C03 - dtype categories accept exactly the documented dtypes, on every backend.

TLC decides Accepts(category, canonical class) from JtDtypes (the documented tree, by KIND) for
every row; the harness enumerates every dtype each installed backend can produce, classifies it by
the LIBRARY's own metadata (np.dtype.kind / itemsize, jnp.issubdtype, tf.DType flags) - never by
jaxtyping's tables - and records what isinstance(array, Category[Backend, "..."]) answers."""
import json
import os
import re

from . import tlc
from .common import Check, MachineryFailure, validate_rows


def classify_np(dt):
    """canonical class of a NumPy dtype from NumPy / ml_dtypes metadata"""
    import numpy as np
    try:
        import ml_dtypes
        fin = None
        try:
            fin = ml_dtypes.finfo(dt)
        except Exception:
            pass
        iin = None
        try:
            iin = ml_dtypes.iinfo(dt)
        except Exception:
            pass
    except ImportError:
        fin = iin = None
    k = dt.kind
    if dt.names is not None:
        return {"kind": "other", "name": str(dt)}
    if (dt.type.__module__ or "").startswith("ml_dtypes"):
        if fin is not None:
            return {"kind": "float", "name": dt.name}
        if iin is not None:
            return {"kind": "uint" if iin.min == 0 else "int", "name": dt.name}
    if k == "b":
        return {"kind": "bool", "name": "bool"}
    if k in "ui" and dt.itemsize in (1, 2, 4, 8) and dt.type.__module__ == "numpy":
        return {"kind": "uint" if k == "u" else "int", "name": ("uint" if k == "u" else "int") + str(8 * dt.itemsize)}
    if k == "f":
        return {"kind": "float", "name": "float" + str(8 * dt.itemsize)}
    if k == "c":
        return {"kind": "complex", "name": "complex" + str(8 * dt.itemsize)}
    if fin is not None and k not in "biufc":
        return {"kind": "float", "name": dt.name}
    if iin is not None and k not in "bfc":
        return {"kind": "uint" if iin.min == 0 else "int", "name": dt.name}
    return {"kind": "other", "name": dt.name}


_SE = {}


def _str_enum(n):
    import enum
    if n not in _SE:
        _SE[n] = enum.Enum("DT_" + n, {"member": n}, type=str).member
    return _SE[n]


def collect():
    import numpy as np
    import jax
    import jax.numpy as jnp
    import ml_dtypes
    import jaxtyping
    cats = {}
    for n in dir(jaxtyping):
        o = getattr(jaxtyping, n)
        if isinstance(o, type) and issubclass(o, jaxtyping.AbstractDtype) and o is not jaxtyping.AbstractDtype:
            cats[n] = o
    rows = []

    def check(arr, A, cat):
        try:
            r = "T" if isinstance(arr, cats[cat][A, "..."]) else "F"
            # the category is what it is however deep it sits: wrapped in two more (any-dtype) layers it accepts the same
            r3 = "T" if isinstance(arr, cats["Shaped"][cats["Shaped"][cats[cat][A, "..."], ""], ""]) else "F"
            return r if r3 == r else f"L3:{r3}/flat:{r}"
        except Exception as e:  # noqa
            return "Exc:" + type(e).__name__

    # ---- NumPy: every scalar type incl. platform aliases, ml_dtypes
    seen = {}
    types = set(np.sctypeDict.values())
    for n in dir(ml_dtypes):
        o = getattr(ml_dtypes, n)
        if isinstance(o, type) and issubclass(o, np.generic):
            types.add(o)
    for t in sorted(types, key=lambda t: t.__name__):
        try:
            dt = np.dtype(t)
            arr = np.zeros(2, dtype=dt)
        except Exception:
            continue
        if dt.kind in "SUVOMm" and dt.names is None and classify_np(dt)["kind"] == "other" and dt.kind != "O" and t.__name__ not in ("str_", "bytes_", "void", "datetime64", "timedelta64"):
            pass
        key = ("numpy", t.__name__)
        if key in seen:
            continue
        seen[key] = 1
        cls = classify_np(dt)
        for cat in cats:
            rows.append({"kind": "dtype", "backend": "numpy", "dtype": t.__name__, "cls": cls, "cat": cat,
                         "res": check(arr, np.ndarray, cat)})
    # the same dtypes in the NON-native byte order (data read from a foreign file): byte order is not part of the category
    for base in (np.int16, np.int32, np.int64, np.uint16, np.uint32, np.uint64, np.float16, np.float32, np.float64,
                 np.complex64, np.complex128):
        dt = np.dtype(base).newbyteorder()
        arr = np.zeros(2, dtype=dt)
        cls = classify_np(np.dtype(base))
        for cat in cats:
            rows.append({"kind": "dtype", "backend": "numpy-byteswapped", "dtype": dt.str, "cls": cls, "cat": cat,
                         "res": check(arr, np.ndarray, cat)})
    # NumPy SCALARS have a shape and a dtype: with `Any` as the array type they are arrays of rank 0 like any other
    # (np.float64 / np.complex128 are also subclasses of Python's float / complex)
    import typing as _typing
    for base in (np.float64, np.float32, np.complex128, np.int64, np.int32, np.uint8, np.bool_, np.float16):
        obj = base(1)
        cls = classify_np(np.dtype(base))
        for cat in cats:
            rows.append({"kind": "dtype", "backend": "numpy-scalar-as-Any", "dtype": base.__name__, "cls": cls, "cat": cat,
                         "res": check(obj, _typing.Any, cat)})
    # structured dtype
    st = np.dtype([("first", np.uint8), ("second", np.int8)])
    arr = np.zeros(2, dtype=st)
    for cat in cats:
        rows.append({"kind": "dtype", "backend": "numpy", "dtype": "structured", "cls": {"kind": "other", "name": str(st)},
                     "cat": cat, "res": check(arr, np.ndarray, cat)})
    # make_numpy_struct_dtype: an exact match on names, order, dtypes AND layout of the fields - in whatever order the
    # variants are met in the process (they may compare equal as NumPy dtypes, but they print differently)
    from jaxtyping import make_numpy_struct_dtype
    fields = [("first", np.uint8), ("second", np.int32)]
    variants = {"packed": np.dtype(fields), "aligned": np.dtype(fields, align=True), "record": np.dtype((np.record, np.dtype(fields))),
                "other": np.dtype([("first", np.uint8), ("third", np.int32)])}
    for order in (list(variants), list(reversed(list(variants)))):
        for vn in order:
            arr = np.zeros(2, dtype=variants[vn])
            isinstance(arr, cats["Shaped"][np.ndarray, "..."])          # an unrelated earlier check of that dtype
            for cn, cdt in variants.items():
                if cn == "record":
                    continue        # np.record dtypes are not accepted by make_numpy_struct_dtype (only plain structured ones)
                try:
                    L = make_numpy_struct_dtype(cdt, "L_" + cn)
                    r = "T" if isinstance(arr, L[np.ndarray, "..."]) else "F"
                except Exception as e:  # noqa
                    r = "Exc:" + type(e).__name__
                rows.append({"kind": "user", "strings": [list(str(cdt))], "patterns": [], "name": list(str(variants[vn])), "res": r,
                             "desc": f"struct category {cn} vs array {vn}"})
    # ---- JAX: eager arrays, tracers, PRNG keys
    jtypes = ["bool_", "uint8", "uint16", "uint32", "int8", "int16", "int32", "float16", "float32", "bfloat16", "complex64",
              "float8_e4m3fn", "float8_e5m2", "float8_e4m3b11fnuz", "float8_e4m3fnuz", "float8_e5m2fnuz", "int4", "uint4",
              "float8_e4m3", "float8_e3m4", "float8_e8m0fnu", "float4_e2m1fn", "int2", "uint2"]
    for tn in jtypes:
        t = getattr(jnp, tn, None)
        if t is None:
            continue
        try:
            arr = jnp.zeros(2, dtype=t)
        except Exception:
            continue
        cls = classify_np(np.dtype(arr.dtype))
        for cat in cats:
            rows.append({"kind": "dtype", "backend": "jax", "dtype": tn, "cls": cls, "cat": cat, "res": check(arr, jax.Array, cat)})
            out = []

            def traced(x, cat=cat):
                out.append(check(x, jax.Array, cat))
                return x
            try:
                jax.eval_shape(traced, arr)
                rows.append({"kind": "dtype", "backend": "jax-tracer", "dtype": tn, "cls": cls, "cat": cat, "res": out[0]})
            except Exception as e:  # noqa
                rows.append({"kind": "dtype", "backend": "jax-tracer", "dtype": tn, "cls": cls, "cat": cat,
                             "res": "Exc:" + type(e).__name__})
    key = jax.random.key(0)
    for cat in cats:
        rows.append({"kind": "dtype", "backend": "jax", "dtype": "key<fry>", "cls": {"kind": "key", "name": "prng_key"}, "cat": cat,
                     "res": check(key, jax.Array, cat)})
    # ---- TensorFlow
    try:
        import tensorflow as tf
        for tn in ["bool", "uint8", "uint16", "uint32", "uint64", "int8", "int16", "int32", "int64", "float16", "float32", "float64",
                   "bfloat16", "complex64", "complex128", "qint8", "quint8", "qint32", "string", "float8_e4m3fn", "float8_e5m2",
                   "int4", "uint4"]:
            t = getattr(tf, tn, None)
            if t is None:
                continue
            try:
                arr = tf.zeros(2, dtype=t) if tn != "string" else tf.constant(["a", "b"])
            except Exception:
                continue
            if t.is_bool:
                cls = {"kind": "bool", "name": "bool"}
            elif t.is_quantized or tn == "string":
                cls = {"kind": "other", "name": tn}
            elif t.is_complex:
                cls = {"kind": "complex", "name": tn}
            elif t.is_floating:
                cls = {"kind": "float", "name": tn}
            elif t.is_integer:
                cls = {"kind": "uint" if t.is_unsigned else "int", "name": tn}
            else:
                cls = {"kind": "other", "name": tn}
            for cat in cats:
                rows.append({"kind": "dtype", "backend": "tensorflow", "dtype": tn, "cls": cls, "cat": cat,
                             "res": check(arr, tf.Tensor, cat)})
            # a legacy (non-resource) variable in a graph reports the REFERENCE dtype (float32_ref ...): same elements, same category
            if not (t.is_quantized or tn in ("string", "float8_e4m3fn", "float8_e5m2", "int4", "uint4")):
                try:
                    with tf.Graph().as_default():
                        legacy = tf.compat.v1.Variable(np.zeros(2, dtype=t.as_numpy_dtype), use_resource=False)
                        if legacy.dtype.name.endswith("_ref"):
                            for cat in cats:
                                rows.append({"kind": "dtype", "backend": "tensorflow-ref-variable", "dtype": legacy.dtype.name, "cls": cls,
                                             "cat": cat, "res": check(legacy, tf.Variable, cat)})
                except Exception:
                    pass
    except ImportError:
        pass
    # ---- duck arrays: string dtypes and torch-style dtype objects (repr 'pkg.float32')
    class Duck:
        def __init__(self, dtype):
            self.shape, self.dtype = (2,), dtype

    class TorchStyle:
        def __init__(self, n):
            self.n = n

        def __repr__(self):
            return "torch." + self.n
    for n in ["bool", "uint8", "int16", "int64", "float16", "float32", "float64", "bfloat16", "complex64", "complex128",
              "float8_e4m3fn", "float8_e5m2", "int4", "uint2", "my_dtype"]:
        kind = ("bool" if n == "bool" else "uint" if n.startswith("uint") else "int" if n.startswith("int") else
                "float" if (n.startswith("float") or n == "bfloat16") else "complex" if n.startswith("complex") else "other")
        cls = {"kind": kind, "name": n}
        for cat in cats:
            rows.append({"kind": "dtype", "backend": "duck-str", "dtype": n, "cls": cls, "cat": cat, "res": check(Duck(n), Duck, cat)})
            rows.append({"kind": "dtype", "backend": "duck-torchstyle", "dtype": n, "cls": cls, "cat": cat,
                         "res": check(Duck(TorchStyle(n)), Duck, cat)})
            # a dtype that IS a string, but of a subclass of str (np.str_ read back from a string array, a str-Enum member)
            rows.append({"kind": "dtype", "backend": "duck-strsubclass", "dtype": n, "cls": cls, "cat": cat,
                         "res": check(Duck(np.str_(n)), Duck, cat)})
            rows.append({"kind": "dtype", "backend": "duck-strenum", "dtype": n, "cls": cls, "cat": cat,
                         "res": check(Duck(_str_enum(n)), Duck, cat)})
    # ---- user-defined categories
    from jaxtyping import AbstractDtype

    def user(strings, patterns):
        # the second, fourth ... pattern is written in upper case and compiled with re.IGNORECASE (dtype names are lower case),
        # the third with re.VERBOSE and a comment: a pattern's flags are part of it
        def comp(i, p):
            body = re.escape(p["s"]) + ("$" if p["kind"] == "full" else "")
            if i % 3 == 1:
                return re.compile(body.upper(), re.IGNORECASE)      # (the names used here contain no character that re.escape changes)
            if i % 3 == 2:
                return re.compile(body + "  # the dtype name", re.VERBOSE)
            return re.compile(body)
        spec = list(strings) + [comp(i, p) for i, p in enumerate(patterns)]

        class U(AbstractDtype):
            dtypes = spec if len(spec) != 1 else spec[0]
        return U
    ucats = [(["uint8", "uint16"], []), (["float32"], []), ([], [{"kind": "prefix", "s": "int"}]),
             ([], [{"kind": "full", "s": "int8"}]), (["bool"], [{"kind": "prefix", "s": "float8"}]),
             ([], [{"kind": "prefix", "s": "int3"}, {"kind": "full", "s": "uint8"}]), (["my_dtype"], []),
             ([], [{"kind": "prefix", "s": "float8"}, {"kind": "prefix", "s": "int"}, {"kind": "full", "s": "uint32"}]),
             (["bool"], [{"kind": "full", "s": "int64"}, {"kind": "prefix", "s": "uint1"}])]
    names = ["uint8", "uint16", "int8", "int32", "int64", "float32", "float8_e4m3fn", "bool", "uint32", "my_dtype", "int", "xint8"]
    for strings, patterns in ucats:
        U = user(strings, patterns)
        for n in names:
            try:
                r = "T" if isinstance(Duck(n), U[Duck, "..."]) else "F"
            except Exception as e:  # noqa
                r = "Exc:" + type(e).__name__
            rows.append({"kind": "user", "strings": [list(s) for s in strings],
                         "patterns": [{"kind": p["kind"], "s": list(p["s"])} for p in patterns], "name": list(n), "res": r,
                         "desc": f"{strings}+{[p['kind'] + ':' + p['s'] for p in patterns]} vs {n}"})
    return rows, sorted(cats)


def main(tier):
    chk = Check("C03", tier)
    try:
        rows, cats = collect()
        if len(cats) < 34:
            raise MachineryFailure(f"only {len(cats)} exported categories found")
        for i, r in enumerate(rows):
            r["id"] = i
        nproc = tlc.NCPU
        files = []
        for i in range(nproc):
            p = os.path.join(chk.workdir, f"dt_{i}.ndjson")
            with open(p, "w") as f:
                for r in rows[i::nproc]:
                    f.write(json.dumps(r, separators=(",", ":")) + "\n")
            files.append(p)
        mism, total = validate_rows(chk, "Rows_JtDtypes", files, name="dtypes")
        want = dict(mism)
        for r in rows:
            if r["id"] in want:
                if r["kind"] == "dtype":
                    chk.disagree(f"C03:dtype:{r['backend']}:{r['dtype']}:{r['cat']}:got={r['res']}",
                                 {"row": r, "spec_expected": want[r["id"]]})
                else:
                    chk.disagree(f"C03:user:{r['desc']}:got={r['res']}", {"row": {k: r[k] for k in ('desc', 'res')},
                                                                           "spec_expected": want[r["id"]]})
        chk.cov["traces_validated_against_impl"] = total
        chk.cov["evaluations"] = total
        chk.cov["distinct_nontrivial"] = sum(1 for r in rows if r["res"] == "T")
        chk.cov["exhaustive"] = True
        backends = sorted({r.get("backend", "user") for r in rows})
        chk.cov["rule"] = ("every (dtype, category, backend) triple: all NumPy scalar types incl. aliases and ml_dtypes types, JAX eager "
                           "arrays / tracers / PRNG keys, TensorFlow dtypes, duck arrays with string and torch-style dtypes, a structured "
                           "dtype x all %d exported categories, plus 7 user categories x 12 names; non-trivial = accepted triples" % len(cats))
        chk.sample(rows[40])
        chk.sample(rows[-3])
        chk.part("rows", total=total, backends=backends, categories=len(cats))
        chk.assumptions += ["PyTorch and MLX are not importable here: represented by the torch-style duck array only",
                            "dtype classes come from NumPy / ml_dtypes / TensorFlow metadata"]
    except MachineryFailure as e:
        return chk.abort(str(e))
    return chk.finish()
