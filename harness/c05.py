"""C05 - bindings live exactly as long as one jaxtyped call or context block.

TLC: JtProgram explored exhaustively (all programs over calls of every flavour, context blocks,
manual checks, {arg} checks, return, Exception / BaseException with every catching discipline,
generator creation and resumption; 3 frames deep): Balanced, TopLevelEmpty, ArgsOfInnermost,
CallerUntouched; the pop-only-on-Exception variant must be refuted.
spec -> code: every behaviour of N actions (exhaustive, N=3 quick / 4 thorough) and simulated
behaviours of 12 actions are performed by a script interpreter on the real library; the
observation after every action (stack depth, binding of the axis, verdict) must equal the
specification's. code -> spec: the recorded executions are validated by Trace_JtProgram.
"""
import json
import os
import re
from concurrent.futures import ProcessPoolExecutor

from . import tlc
from .common import Check, MachineryFailure

BASE = dict(PopDiscipline="finally", MaxFrames=3, MaxSteps=100, MaxGens=2)


def emit_behaviours(chk, steps, simulate=0, depth=0, maxgens=1):
    wd = chk.workdir
    cfg = os.path.join(wd, f"emitprog_{steps}_{simulate}.cfg")
    tlc.write_cfg(cfg, spec="ESpec", constants=dict(BASE, MaxSteps=steps, MaxGens=maxgens), constraints=["Emit"])
    args = []
    if simulate:
        args = ["-simulate", f"num={simulate}", "-depth", str(steps + 1), "-seed", str(chk.seed + 17)]
    res = tlc.run("Emit_JtProgram", cfg, wd, workers=1 if simulate else 4, args=args, timeout=1800, heap="8g")
    behs = []
    for v in res.printed():
        if isinstance(v, list) and len(v) == 2 and v[0] == "BEH":
            behs.append(json.loads(v[1]))
    if not behs:
        raise MachineryFailure("no behaviours emitted:\n" + res.tail())
    if not simulate:
        chk.add_tlc(f"Emit_JtProgram[{steps} steps, exhaustive]", res)
    else:
        chk.cov["tlc_runs"].append({"name": f"Emit_JtProgram[simulate {simulate}x{steps}]", "behaviours": len(behs),
                                    "wall_s": round(res.wall, 1), "outcome": "ok"})
    return behs


def replay_chunk(args):
    behs, checker, out_path, tid0 = args
    from . import progs
    I = progs.setup(checker)
    bad = []
    with open(out_path, "w") as f:
        for j, b in enumerate(behs):
            out, end = I.run(b["hist"])
            tid = tid0 + j
            f.write(json.dumps({"ev": "begin", "tid": tid}) + "\n")
            for a, o in zip(b["hist"], out):
                f.write(json.dumps({"ev": "act", "a": a, "obs": o}, separators=(",", ":")) + "\n")
            f.write(json.dumps({"ev": "end", "depth": end["depth"], "a": end["a"], "tid": tid}) + "\n")
            if out != b["obs"] or end != {"depth": 0, "a": 0} or len(out) != len(b["hist"]):
                k = next((i for i, (x, y) in enumerate(zip(out, b["obs"])) if x != y), min(len(out), len(b["obs"])))
                bad.append({"tid": tid, "program": b["hist"], "expected": b["obs"], "observed": out, "end": end,
                            "first_diff_at": k, "checker": checker})
    return bad


def trace_validate(chk, files):
    cfg = os.path.join(chk.workdir, "trace.cfg")
    tlc.write_cfg(cfg, spec="TSpec", constants=dict(BASE, MaxGens=8, MaxFrames=8), constraints=["Progress"],
                  postcondition="Accepted")
    rejected = []
    total = 0
    for fp in files:
        lines = open(fp).read().splitlines()
        for attempt in range(4):
            res = tlc.run("Trace_JtProgram", cfg, chk.workdir, workers=1, env={"VERIF_ROWS": fp}, timeout=1800, heap="4g")
            chk.cov["states"] += res.distinct
            chk.cov["transitions"] += res.generated
            m = re.search(r'<<"REJECTED", (\d+), ("(?:[^"\\]|\\.)*")>>', res.out)
            if '"ACCEPTED"' in res.out:
                total += sum(1 for l in lines if '"ev": "begin"' in l or '"ev":"begin"' in l)
                break
            if not m:
                raise MachineryFailure("trace validator neither accepted nor rejected:\n" + res.tail())
            at = int(m.group(1))
            # find the trace containing line `at` (1-based), report it, cut it out, validate the rest
            start = max(i for i in range(at) if '"begin"' in lines[i])
            end = next((i for i in range(at, len(lines)) if '"begin"' in lines[i]), len(lines))
            rejected.append({"line": json.loads(lines[at - 1]), "trace": [json.loads(x) for x in lines[start:end]]})
            lines = lines[:start] + lines[end:]
            open(fp, "w").write("\n".join(lines) + "\n")
            if not lines:
                break
    return rejected, total


def main(tier):
    chk = Check("C05", tier)
    try:
        wd = chk.workdir
        cfg = os.path.join(wd, "prog.cfg")
        tlc.write_cfg(cfg, spec="Spec", constants=dict(BASE, MaxGens=1 if tier == "quick" else 2), view="View",
                      invariants=["Balanced", "TopLevelEmpty", "ArgsOfInnermost"], properties=["CallerUntouched"])
        r0 = tlc.run("JtProgram", cfg, wd, args=["-coverage", "1"])
        chk.add_tlc("JtProgram[finally]", r0)
        chk.action_coverage("JtProgram", r0, ["Call", "BadCall", "MakeDC", "BadDC", "EnterCtx", "Check", "ArgCheck", "Return", "Raise",
                                               "MakeGen", "GenNext", "GenClose"])
        cfgb = os.path.join(wd, "prog_broken.cfg")
        tlc.write_cfg(cfgb, spec="Spec", constants=dict(BASE, PopDiscipline="except_exception"), view="View",
                      invariants=["Balanced"])
        chk.add_tlc("JtProgram[except_exception] (must be refuted)", tlc.run("JtProgram", cfgb, wd),
                    expect_violation="Balanced")
        behs = emit_behaviours(chk, 3)
        n4 = 0
        if tier == "thorough":
            # behaviours of 4 actions: there are millions (holding them all once cost 16 GB and the OOM killer the run);
            # TLC's simulator draws a seeded sample of them instead
            # (in simulation mode the emitting constraint fires for every successor TLC generates at the last step, not
            # only for the one it follows: 8000 walks yield about 350 000 behaviours)
            b4 = emit_behaviours(chk, 4, simulate=8000, maxgens=1)
            seen4 = set()
            for b in b4:
                key = json.dumps(b["hist"], sort_keys=True)
                if key not in seen4:
                    seen4.add(key)
                    behs.append(b)
            n4 = len(seen4)
            del b4, seen4
        sims = emit_behaviours(chk, 12, simulate=1500 if tier == "quick" else 30000, maxgens=2)
        allb = behs + sims
        nproc = tlc.NCPU
        jobs = []
        for i in range(nproc):
            part = allb[i::nproc]
            jobs.append((part, "beartype" if i % 2 else "typeguard", os.path.join(wd, f"trace_{i}.ndjson"), i * 10_000_000))
        with ProcessPoolExecutor(max_workers=nproc) as ex:
            bads = [b for r in ex.map(replay_chunk, jobs) for b in r]
        for b in bads[:200]:
            prog = " ; ".join(a["op"] + "".join(f"[{a[k]}]" for k in ("kind", "catches", "cls", "k") if k in a) for a in b["program"])
            chk.disagree(f"C05:program:{prog}:diff@{b['first_diff_at']}", b)
        # code -> spec on the recorded executions (a sample of the files to keep the quick tier short)
        files = [j[2] for j in jobs]
        rejected, nvalid = trace_validate(chk, files if tier == "thorough" else files[:4])
        for r in rejected:
            chk.disagree(f"C05:trace-rejected:{json.dumps(r['line'])[:160]}", r)
        if tier == "thorough":
            from . import suite
            suite.validate_suite(chk, "C05")      # incl. the push/pop events of the repository's own tests
        # demonstrate the binding: corrupt one logged depth
        selftest(chk, files[0])
        chk.cov["traces_validated_against_impl"] = len(allb) + nvalid
        chk.cov["evaluations"] = len(allb)
        chk.cov["distinct_nontrivial"] = sum(1 for b in allb if any(a["op"] in ("raise", "badcall", "gennext") for a in b["hist"]))
        chk.cov["exhaustive"] = True
        chk.cov["rule"] = ("all behaviours of 3 program actions (exhaustive)%s + %d simulated behaviours of 12 actions; non-trivial = "
                           "programs containing a raise, a rejected call or a generator resumption"
                           % ((", %d distinct simulated behaviours of 4 actions" % n4) if n4 else "", len(sims)))
        chk.sample({"program": allb[len(allb) // 2]["hist"], "expected_obs": allb[len(allb) // 2]["obs"]})
        chk.sample({"program": sims[0]["hist"], "expected_obs": sims[0]["obs"]})
        chk.part("replay", exhaustive_behaviours=len(behs), simulated=len(sims), traces_validated_by_tlc=nvalid)
        chk.assumptions += ["one axis name, sizes 1..2, <=3 open frames, <=2 pending generators",
                            "the context stack depth is observed through jaxtyping._storage when present",
                            "coroutine functions are not part of the program alphabet (see known finding D8 under C07)"]
    except MachineryFailure as e:
        return chk.abort(str(e))
    return chk.finish()


def selftest(chk, fp):
    lines = open(fp).read().splitlines()
    for i, l in enumerate(lines):
        r = json.loads(l)
        if r["ev"] == "act" and r["obs"]["depth"] >= 1:
            r["obs"]["depth"] += 1
            p = os.path.join(chk.workdir, "corrupt_trace.ndjson")
            start = max(j for j in range(i + 1) if '"begin"' in lines[j])
            end = next((j for j in range(i + 1, len(lines)) if '"begin"' in lines[j]), len(lines))
            open(p, "w").write("\n".join(lines[start:i] + [json.dumps(r)] + lines[i + 1:end]) + "\n")
            rej, _ = trace_validate(chk, [p])
            if not rej:
                raise MachineryFailure("binding self-test: corrupted trace accepted")
            chk.part("binding_selftest", corrupted_trace="rejected at the corrupted line" if rej[0]["line"]["obs"] == r["obs"] else "rejected")
            return
    raise MachineryFailure("binding self-test: no suitable line")
