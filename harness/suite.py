"""Runs the repository's own test-suite under the recording plugin and validates every array check
it performs against the specification (Rows_JtSuite). The recording is cached by a hash of the
working tree's sources, so a changed tree is never validated against a stale recording."""
import glob
import hashlib
import json
import os
import shutil
import subprocess

from .common import MachineryFailure, validate_rows, VERIF, PY


def tree_hash(repo):
    h = hashlib.sha256()
    for p in sorted(glob.glob(os.path.join(repo, "jaxtyping", "**", "*.py"), recursive=True) +
                    glob.glob(os.path.join(repo, "test", "**", "*.py"), recursive=True) +
                    [os.path.join(VERIF, "harness", "jt_verif_plugin.py")]):
        h.update(p.encode())
        h.update(open(p, "rb").read())
    return h.hexdigest()[:24]


def record(repo):
    cache = os.path.join(VERIF, ".cache", "suite_" + tree_hash(repo))
    if os.path.exists(os.path.join(cache, "done")):
        return cache, True
    shutil.rmtree(cache, ignore_errors=True)
    os.makedirs(cache)
    env = dict(os.environ, JAXTYPING_VERIF="1", VERIF_TRACE_DIR=cache, PYTHONPATH=repo + os.pathsep + VERIF)
    p = subprocess.run([PY, "-m", "pytest", "-q", "-p", "no:cacheprovider", "-p", "harness.jt_verif_plugin", "--timeout=900",
                        "--continue-on-collection-errors"], cwd=repo, env=env, capture_output=True, text=True, timeout=3000)
    tail = (p.stdout.strip().splitlines() or [""])[-1]
    open(os.path.join(cache, "done"), "w").write(tail)
    return cache, False


def validate_suite_pytrees(chk, pid):
    """every outermost PyTree[...] check the repository's own tests perform, re-decided by TLC (Rows_JtPyTreeSuite)"""
    repo = os.environ.get("VERIF_REPO", "/repo")
    cache, cached = record(repo)
    files = [f for f in glob.glob(os.path.join(cache, "*.ndjson.pt")) if os.path.getsize(f)]
    if not files:
        raise MachineryFailure("the repository's test-suite produced no recorded PyTree checks")
    mism, total = validate_rows(chk, "Rows_JtPyTreeSuite", files, name="repo-test-suite-pytrees")
    want = dict(mism)
    unsupported, why = 0, {}
    for f in files:
        for line in open(f):
            r = json.loads(line)
            if r.get("unsupported"):
                unsupported += 1
                why[r.get("why", "?")[:50]] = why.get(r.get("why", "?")[:50], 0) + 1
            if r["id"] in want:
                chk.disagree(f"{pid}:suite-pytree:{r.get('test')}:{r.get('hint')}:res={r.get('res')}",
                             {"row": r, "spec_expected": want[r["id"]]})
    if total - unsupported < 100:
        raise MachineryFailure(f"only {total - unsupported} PyTree checks of the repository's tests could be expressed in the specification")
    chk.cov["traces_validated_against_impl"] += total - unsupported
    chk.cov["evaluations"] += total
    chk.part("repo_test_suite_pytrees", recorded_checks=total, outside_the_vocabulary=unsupported, reasons=why, recording_cached=cached)
    return total


def validate_suite(chk, pid):
    repo = os.environ.get("VERIF_REPO", "/repo")
    cache, cached = record(repo)
    files = glob.glob(os.path.join(cache, "*.ndjson"))
    if not files:
        raise MachineryFailure("the repository's test-suite produced no recorded checks")
    mism, total = validate_rows(chk, "Rows_JtSuite", files, name="repo-test-suite")
    want = dict(mism)
    unsupported = 0
    for f in files:
        for line in open(f):
            r = json.loads(line)
            unsupported += bool(r.get("unsupported"))
            if r["id"] in want:
                chk.disagree(f"{pid}:suite:{r.get('test')}:'{r.get('dim_str')}':shape={r.get('obj', {}).get('shape')}:lab={r.get('lab')!r}",
                             {"row": r, "spec_expected": want[r["id"]]})
    chk.cov["traces_validated_against_impl"] += total - unsupported
    chk.cov["evaluations"] += total
    # the life-time discipline on the same recording (push / pop / what a finished test leaves behind)
    import re
    from . import tlc
    traces = glob.glob(os.path.join(cache, "stack_*.ndjson.trace"))
    nev = 0
    for tf in traces:
        nev += sum(1 for _ in open(tf))
        cfg = os.path.join(chk.workdir, "stacktrace.cfg")
        tlc.write_cfg(cfg, spec="TSpec", constraints=["Progress"], postcondition="Accepted")
        res = tlc.run("Trace_JtStack", cfg, chk.workdir, workers=1, env={"VERIF_ROWS": tf}, heap="4g")
        chk.cov["states"] += res.distinct
        chk.cov["transitions"] += res.generated
        if '"ACCEPTED"' not in res.out:
            m = [v for v in res.printed() if isinstance(v, list) and v and v[0] == "REJECTED"]
            if not m:
                raise MachineryFailure("stack trace validator neither accepted nor rejected:\n" + res.tail())
            chk.disagree(f"{pid}:suite-stack:line{m[0][1]}:{m[0][2][:160]}", {"rejected_event": json.loads(m[0][2]), "line": m[0][1]})
    if not traces or not nev:
        raise MachineryFailure("no push/pop events were recorded from the repository's test-suite")
    chk.cov["traces_validated_against_impl"] += len(traces)
    chk.part("repo_test_suite_stack", events=nev, files=len(traces))
    chk.part("repo_test_suite", recorded_checks=total, unsupported_skipped=unsupported, suite_result=open(os.path.join(cache, "done")).read(),
             recording_cached=cached)
    return total
