"""Synthesised decorated functions and the variants in which one abstract call is executed
(shared by C02, C07, C13, C17, C19)."""
import dataclasses
import itertools
import json
import re
import warnings

warnings.simplefilter("ignore")

_S = {}


def L():
    if _S:
        return _S
    import numpy as np
    import jaxtyping
    from jaxtyping import Float, jaxtyped, AnnotationError, TypeCheckError, config
    from beartype import beartype
    from typeguard import typechecked
    _S.update(np=np, jaxtyping=jaxtyping, Float=Float, jaxtyped=jaxtyped, AnnotationError=AnnotationError,
              TypeCheckError=TypeCheckError, config=config,
              checkers={"beartype": beartype, "typeguard": typechecked})
    return _S


PNAMES = ["x0", "x1", "x2", "x3", "x4"]
COUNTER = [0]
RET = [None]
_fn_cache = {}


def make_fn(order, anns, retann, checker, spelling, arr, names=None):
    """def f(<params in `order`>) [-> R]: body counts its runs and returns RET[0]"""
    st = L()
    names = names or PNAMES
    key = (tuple(order), tuple(anns), retann, checker, spelling, arr, tuple(names))
    f = _fn_cache.get(key)
    if f is not None:
        return f
    from . import render as R
    if arr == "np":
        A = st["np"].ndarray
    else:
        import jax
        A = jax.Array
    g = {"COUNTER": COUNTER, "RET": RET}
    ps = []
    for i in order:
        g[f"A{i}"] = st["Float"][A, anns[i]]
        ps.append(f"{names[i]}: A{i}")
    rs = ""
    if retann is not None:
        g["RA"] = st["Float"][A, retann]
        rs = " -> RA"
    src = f"def f({', '.join(ps)}){rs}:\n    COUNTER[0] += 1\n    return RET[0]\n"
    exec(src, g)
    fn = g["f"]
    tc = st["checkers"][checker]
    if spelling == "new":
        f = st["jaxtyped"](typechecker=tc)(fn)
    else:
        f = st["jaxtyped"](tc(fn))
    if len(_fn_cache) > 4000:
        _fn_cache.clear()
    _fn_cache[key] = f
    return f


def make_dc(order, anns, checker, names=None, sub=False):
    """a jaxtyped dataclass with the given fields; sub=True: declared as a subclass of another (field-less) jaxtyped
    dataclass - it has its own generated __init__, which must be checked like any other"""
    st = L()
    names = names or PNAMES
    key = ("dc", tuple(order), tuple(anns), checker, tuple(names), sub)
    c = _fn_cache.get(key)
    if c is not None:
        return c
    A = st["np"].ndarray
    g = {"dataclasses": dataclasses}
    if sub == "inherit":
        # the fields (and the generated __init__) live in an UNDECORATED dataclass; the jaxtyped class only adds a method
        lines = ["@dataclasses.dataclass", "class B:"]
        for i in order:
            g[f"A{i}"] = st["Float"][A, anns[i]]
            lines.append(f"    {names[i]}: A{i}")
        lines += ["class D(B):", "    def method(self):", "        return 1"]
        exec("\n".join(lines) + "\n", g)
        c = st["jaxtyped"](typechecker=st["checkers"][checker])(g["D"])
        _fn_cache[key] = c
        return c
    if sub:
        exec("@dataclasses.dataclass\nclass B:\n    pass\n", g)
        g["B"] = st["jaxtyped"](typechecker=st["checkers"][checker])(g["B"])
    lines = ["@dataclasses.dataclass", "class D(B):" if sub else "class D:"]
    for i in order:
        g[f"A{i}"] = st["Float"][A, anns[i]]
        lines.append(f"    {names[i]}: A{i}")
    exec("\n".join(lines) + "\n", g)
    c = st["jaxtyped"](typechecker=st["checkers"][checker])(g["D"])
    _fn_cache[key] = c
    return c


_stage = re.compile(r"Type-check error whilst checking the (parameters|return value) of ([^\n]*?)\.(?:\n|$)")
_blame = re.compile(r"The problem arose whilst typechecking parameter '([^']+)'")


def parse_tce(msg):
    from . import render as R
    out = {"stage": "", "blamed": "", "printed": {"single": {}, "variadic": {}}}
    m = _stage.search(msg)
    if m:
        out["stage"] = "params" if m.group(1) == "parameters" else "return"
        out["fn"] = m.group(2)
    m = _blame.search(msg)
    if m:
        out["blamed"] = m.group(1)
    cands = [j for j in (msg.find("The current values for each jaxtyping axis annotation are as follows."),
                         msg.find("The current values for each jaxtyping PyTree structure annotation are as")) if j >= 0]
    i = min(cands) if cands else -1
    if i >= 0:
        b = R.parse_bindings(msg[i:])
        out["printed"] = {"single": b["single"], "variadic": {k: v["s"] for k, v in b["variadic"].items()}}
        out["pytree_printed"] = b["pytree"]
    return out


def classify(fn, args, kwargs, level):
    st = L()
    COUNTER[0] = 0
    v = {"level": level, "stage": "", "blamed": "", "printed": {"single": {}, "variadic": {}}}
    try:
        fn(*args, **kwargs)
        v["outcome"] = "ok"
    except st["TypeCheckError"] as e:
        v["outcome"] = "TCE"
        try:
            v.update(parse_tce(str(e)))
        except ValueError:
            if level != "exact":        # (symbolic sizes in the printed bindings: only the outcome class is compared there)
                raise
        v["has_cause"] = e.__cause__ is not None
    except st["AnnotationError"]:
        v["outcome"] = "AnnErr"
    except Exception as e:  # noqa
        mod = type(e).__module__ or ""
        if level in ("verdict", "note") and (isinstance(e, TypeError) or mod.startswith("beartype")):
            v["outcome"] = "TCE"       # old style: the checker's own exception class
            if level == "note":
                # old style: the bindings in force are attached to the checker's exception as a note
                notes = [n for n in getattr(e, "__notes__", []) if "jaxtyping" in n]
                v["printed"] = parse_tce(notes[0])["printed"] if notes else {"single": {}, "variadic": {}}
                v["notes"] = len(notes)
        else:
            v["outcome"] = "Exc:" + type(e).__name__
            v["msg"] = str(e)[:200]
    v["bodyruns"] = COUNTER[0]
    return v


def perms_keeping_sym(n, symidx, limit=6):
    """parameter orders; symbolic parameters keep their place after the parameters before them"""
    out = []
    for p in itertools.permutations(range(n)):
        ok = all(set(range(i)) <= set(p[:p.index(i)]) for i in symidx)
        if ok:
            out.append(list(p))
    return out[:limit]


def run_call_variants(case, *, checkers=("typeguard", "beartype"), spellings=("new", "old"), dataclass=True,
                      orders=True, passing=("pos", "kw", "rkw"), stack_switch=False):
    """case: {"params":[{"nm","toks"}], "shapes":[...], "hasret", "rettoks", "retshape"} -> list of variants"""
    from . import render as R
    st = L()
    n = len(case["params"])
    anns = [R.dim_str(p["toks"]) for p in case["params"]]
    retann = R.dim_str(case["rettoks"]) if case["hasret"] else None
    arrs = [R.zeros(s) for s in case["shapes"]]
    RET[0] = R.zeros(case["retshape"]) if case["hasret"] else None
    symidx = [i for i, p in enumerate(case["params"]) if any(t["base"]["k"] == "sym" for t in p["toks"])]
    # permutations only for signatures without symbolic parameters (a symbolic RETURN annotation is fine:
    # the return value is always checked last), so that symbolic axes stay after their binders
    ords = perms_keeping_sym(n, symidx) if (orders and not symidx) else [list(range(n))]
    variants = []
    names = [p["nm"] for p in case["params"]]
    for ck in checkers:
        for sp in spellings:
            for oi, order in enumerate(ords):
                if oi > 0 and sp == "old":
                    continue
                fn = make_fn(order, anns, retann, ck, sp, "np", names)
                for pa in passing:
                    if oi > 0 and pa != "pos":
                        continue
                    if pa == "pos":
                        a, kw = [arrs[i] for i in order], {}
                    elif pa == "kw":
                        a, kw = [], {names[i]: arrs[i] for i in order}
                    else:
                        a, kw = [], {names[i]: arrs[i] for i in reversed(order)}
                    level = "full" if (sp == "new") else ("note" if oi == 0 else "verdict")
                    v = classify(fn, a, kw, level)
                    v["desc"] = f"{ck}/{sp}/order={order}/{pa}"
                    if oi > 0 and v["level"] == "full":
                        # blamed / printed are statements about the DECLARED order: a permuted declaration is a
                        # different function, for which only the verdict is compared
                        v["level"] = "verdict-body"
                    variants.append(v)
        if dataclass and not case["hasret"] and n > 0:
            D = make_dc(list(range(n)), anns, ck, names)
            v = classify(D, arrs, {}, "full")
            v["desc"] = f"{ck}/dataclass/pos"
            v["level"] = "verdict"
            variants.append(v)
            D = make_dc(list(range(n)), anns, ck, names, sub=True)
            v = classify(D, arrs, {}, "full")
            v["desc"] = f"{ck}/dataclass-subclass/pos"
            v["level"] = "verdict"
            variants.append(v)
            D = make_dc(list(range(n)), anns, ck, names, sub="inherit")
            v = classify(D, arrs, {}, "full")
            v["desc"] = f"{ck}/dataclass-inherited-init/pos"
            v["level"] = "verdict"
            variants.append(v)
    if stack_switch:
        cfg = st["config"]
        fn = make_fn(list(range(n)), anns, retann, "typeguard", "new", "np", names)
        for val in (True, False):
            cfg.update("jaxtyping_remove_typechecker_stack", val)
            try:
                v = classify(fn, arrs, {}, "full")
            finally:
                cfg.update("jaxtyping_remove_typechecker_stack", False)
            v["desc"] = f"typeguard/new/remove_stack={val}"
            if v["outcome"] == "TCE" and v.get("has_cause") == val:
                v["outcome"] = "Exc:cause-mismatch"
            variants.append(v)
    return variants


_JZ = {}


def run_jax_variants(case, checkers=("beartype", "typeguard"), seed=0, prime=None):
    """C17: the same decorated function eagerly on concrete jax arrays (two value seeds) and traced by
    jit / vmap / grad / eval_shape / jit(vmap) / vmap(grad-like)."""
    import jax
    import jax.numpy as jnp
    import numpy as np
    from . import render as R
    n = len(case["params"])
    anns = [R.dim_str(p["toks"]) for p in case["params"]]
    retann = R.dim_str(case["rettoks"]) if case["hasret"] else None
    rng = np.random.RandomState(seed)
    order = list(range(n))
    variants = []

    names = [p["nm"] for p in case["params"]]

    def vals(kind):
        if kind == 0:   # the same array OBJECT is reused for the same shape across all cases of this process
            return [_JZ.setdefault(tuple(s), jnp.zeros(tuple(s), jnp.float32)) for s in case["shapes"]]
        return [jnp.asarray(np.asarray(rng.randn(*s), dtype="float32") * 7 + 3) for s in case["shapes"]]

    for ck in checkers:
        fn = make_fn(order, anns, retann, ck, "new", "jax", names)
        RET[0] = jnp.zeros(tuple(case["retshape"]), jnp.float32) if case["hasret"] else jnp.float32(0)
        for kind in (0, 1):
            if kind == 0 and prime is not None and len(prime["shapes"]) == n:
                # the immediately preceding call of the SAME function was the sibling case (same array objects for the
                # untouched parameters): its outcome must not leak into this one
                try:
                    fn(*[_JZ.setdefault(tuple(s), jnp.zeros(tuple(s), jnp.float32)) for s in prime["shapes"]])
                except Exception:
                    pass
            v = classify(fn, vals(kind), {}, "exact")
            v["desc"] = f"{ck}/eager/values{kind}" + ("/after-sibling" if (kind == 0 and prime is not None) else "")
            variants.append(v)
        a = vals(1)
        if n == 0:
            continue
        trans = {
            "jit": lambda: jax.jit(lambda *xs: fn(*xs))(*a),
            "eval_shape": lambda: jax.eval_shape(lambda *xs: fn(*xs), *[jax.ShapeDtypeStruct(x.shape, x.dtype) for x in a]),
            "vmap": lambda: jax.vmap(lambda *xs: fn(*xs))(*[jnp.stack([x, x + 1]) for x in a]),
            "jit_vmap": lambda: jax.jit(jax.vmap(lambda *xs: fn(*xs)))(*[jnp.stack([x, x]) for x in a]),
            "grad": lambda: jax.grad(lambda *xs: jnp.sum(fn(*xs)) + sum(jnp.sum(x) for x in xs),
                                     argnums=tuple(range(n)))(*a),
            "vmap_in_axes_last": lambda: jax.vmap(lambda *xs: fn(*xs), in_axes=-1)(*[jnp.stack([x, x], axis=-1) for x in a]),
            "vmap_partial": lambda: jax.vmap(lambda *xs: fn(*xs), in_axes=(0,) + (None,) * (n - 1))(
                jnp.stack([a[0], a[0]]), *a[1:]),
        }
        # shape-polymorphic tracing: sizes >= 2 become symbolic dimensions (equal sizes -> the same symbol), where that
        # keeps the meaning of the case: no '#' (size 1 / NumPy broadcasting), no symbolic expression, and the size is not
        # written as a literal anywhere in the signature.  Checking must not force a symbolic size to a number.
        toks_all = [t for p in case["params"] for t in p["toks"]] + list(case["rettoks"] if case["hasret"] else [])
        literals = {t["base"]["v"] for t in toks_all if t["base"]["k"] == "int"}
        if not any("#" in t["mods"] or t["base"]["k"] == "sym" for t in toks_all) and not case.get("args"):
            sizes = sorted({d for sh in list(case["shapes"]) + ([case["retshape"]] if case["hasret"] else []) for d in sh
                            if d >= 2 and d not in literals})
            if sizes:
                from jax import export
                syms = dict(zip(sizes, export.symbolic_shape(", ".join(f"s{d}" for d in sizes))))
                symshape = lambda sh: tuple(syms.get(d, d) for d in sh)
                if case["hasret"]:
                    RETSYM[0] = jax.ShapeDtypeStruct(symshape(case["retshape"]), jnp.float32)

                def sym_thunk():
                    def body(*xs):
                        keep = RET[0]
                        try:
                            if case["hasret"]:
                                RET[0] = jnp.zeros(RETSYM[0].shape, jnp.float32)     # an abstract value of the symbolic shape
                            return fn(*xs)
                        finally:
                            RET[0] = keep
                    return jax.eval_shape(body, *[jax.ShapeDtypeStruct(symshape(x.shape), x.dtype) for x in a])
                v = classify(lambda: sym_thunk(), [], {}, "exact")
                v["desc"] = f"{ck}/eval_shape_symbolic_dims"
                variants.append(v)
        for name, thunk in trans.items():
            v = classify(lambda: thunk(), [], {}, "exact")
            v["desc"] = f"{ck}/{name}"
            variants.append(v)
    return variants


RETSYM = [None]


def run_jax_varkw(case, checkers=("beartype", "typeguard"), seed=0):
    """C17: ONE annotation for all extra keyword arguments (`**kw: Ann`); the caller passes them in the case's order, jax's
    transformations hand them on in sorted key order - the verdict must not care"""
    import jax
    import jax.numpy as jnp
    import numpy as np
    from . import render as R
    st = L()
    ann = R.dim_str(case["params"][0]["toks"])
    retann = R.dim_str(case["rettoks"]) if case["hasret"] else None
    names = [p["nm"] for p in case["params"]]
    rng = np.random.RandomState(seed)
    a = [jnp.asarray(np.asarray(rng.randn(*s), dtype="float32")) for s in case["shapes"]]
    variants = []
    for ck in checkers:
        key = ("varkw", ann, retann, ck)
        fn = _fn_cache.get(key)
        if fn is None:
            g = {"COUNTER": COUNTER, "RET": RET, "A": st["Float"][jax.Array, ann]}
            rs = ""
            if retann is not None:
                g["R"] = st["Float"][jax.Array, retann]
                rs = " -> R"
            exec(f"def f(**kw: A){rs}:\n    COUNTER[0] += 1\n    return RET[0]\n", g)
            fn = _fn_cache[key] = st["jaxtyped"](typechecker=st["checkers"][ck])(g["f"])
        RET[0] = jnp.zeros(tuple(case["retshape"]), jnp.float32) if case["hasret"] else jnp.float32(0)
        kw = {n: x for n, x in zip(names, a)}          # insertion order = the case's order
        trans = {
            "eager": lambda: fn(**kw),
            "jit": lambda: jax.jit(lambda **k: fn(**k))(**kw),
            "eval_shape": lambda: jax.eval_shape(lambda **k: fn(**k), **{n: jax.ShapeDtypeStruct(x.shape, x.dtype) for n, x in kw.items()}),
            "vmap": lambda: jax.vmap(lambda k: fn(**k))({n: jnp.stack([x, x + 1]) for n, x in kw.items()}),
            "jit_vmap": lambda: jax.jit(jax.vmap(lambda k: fn(**k)))({n: jnp.stack([x, x]) for n, x in kw.items()}),
        }
        for name, thunk in trans.items():
            v = classify(lambda: thunk(), [], {}, "exact")
            v["desc"] = f"{ck}/varkw/{name}"
            variants.append(v)
    return variants
