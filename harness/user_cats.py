"""User-defined dtype categories that are importable by name (harness.user_cats.<Name>) in every process - used by
C20 (pickling) and described to TLC as [strings, patterns] (JtDtypes.UserAccepts)."""
import re

from jaxtyping import AbstractDtype


class SmallInts(AbstractDtype):
    dtypes = ["int8", "int32"]


class AnyFloatByPattern(AbstractDtype):
    dtypes = [re.compile("float")]                 # re.match: every name that STARTS with "float" (not bfloat16)


class MixedStringAndPattern(AbstractDtype):
    dtypes = ["uint8", re.compile("int")]          # uint8 by name, int* by pattern


class ExactByPattern(AbstractDtype):
    dtypes = [re.compile("float32$"), "complex64"]   # (not "bool": numpy 1.x calls that dtype "bool_")


SPECS = {
    "SmallInts": {"strings": ["int8", "int32"], "patterns": []},
    "AnyFloatByPattern": {"strings": [], "patterns": [{"kind": "prefix", "s": "float"}]},
    "MixedStringAndPattern": {"strings": ["uint8"], "patterns": [{"kind": "prefix", "s": "int"}]},
    "ExactByPattern": {"strings": ["complex64"], "patterns": [{"kind": "full", "s": "float32"}]},
}


def tla_spec(name):
    s = SPECS[name]
    return {"strings": [list(x) for x in s["strings"]], "patterns": [{"kind": p["kind"], "s": list(p["s"])} for p in s["patterns"]]}
