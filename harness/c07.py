"""C07 - on well-typed calls a decorated function is indistinguishable from the original.

TLC (MC_JtCallShape): every signature shape over the five parameter kinds (defaults on/off) x every
call shape (0..3 positionals, any subset of keyword names); Python's binding rule is the operator
Binds. Binding: for each (signature, call) a function is generated from source (def / async def /
lambda, random parameter names incl. T0, default0, ret0, the function's own name, self, args,
kwargs), decorated with both typecheckers, called well- and ill-typed, and compared with the
undecorated function; TLC re-decides every row (Rows_JtCallShape)."""
import asyncio
import inspect
import json
import os
import random
from concurrent.futures import ProcessPoolExecutor

from . import tlc
from .common import Check, MachineryFailure, validate_rows

PO = ["p", "T0", "self", "x", "ret0", "default0", "fn0"]
PK = ["q", "default0", "ret0", "f", "args", "T1"]
KO = ["k", "T2", "default1", "kwargs", "ret1", "name"]


def gen_source(sig, names, kind, with_ret, annot_var=False):
    parts = []
    if sig["po"]:
        parts += [f"{names['po']}: A" + (" = D" if sig["dpo"] else ""), "/"]
    if sig["pk"]:
        parts.append(f"{names['pk']}: A" + (" = D" if sig["dpk"] else ""))
    if sig["va"]:
        parts.append(f"*{names['va']}" + (": A" if annot_var else ""))
    elif sig["ko"]:
        parts.append("*")
    if sig["ko"]:
        parts.append(f"{names['ko']}: A" + (" = D" if sig["dko"] else ""))
    if sig["vk"]:
        parts.append(f"**{names['vk']}" + (": A" if annot_var else ""))
    argstr = ", ".join(parts)
    got = "{" + ", ".join(f"'{r}': {names[r]}" for r in ("po", "pk", "ko") if sig[r]) + "}"
    va = names["va"] if sig["va"] else "()"
    vk = names["vk"] if sig["vk"] else "{}"
    if kind == "lambda":
        # annotations are attached afterwards
        plain = ", ".join(p.replace(": A", "") for p in parts)
        return f"fn = lambda {plain}: BODY({got}, {va}, {vk})\n"
    head = "async def" if kind == "async" else "def"
    ret = " -> A" if with_ret else ""
    return f"{head} fn({argstr}){ret}:\n    '''doc of fn'''\n    return BODY({got}, {va}, {vk})\n"


def worker(args):
    rows_in, out_path, seed = args
    import numpy as np
    import jaxtyping
    from jaxtyping import Float, jaxtyped, TypeCheckError, config
    from beartype import beartype
    from typeguard import typechecked
    rng = random.Random(seed)
    A = Float[np.ndarray, "a"]
    GOOD = lambda: np.zeros(2, np.float32)
    D = np.zeros(2, np.float32)
    RESULT = np.zeros(2, np.float32)
    log = []

    def BODY(got, va, vk):
        log.append((dict(got), tuple(va), dict(vk)))
        return RESULT
    with open(out_path, "w") as f:
        for rid, sig, call, typed, flavour in rows_in:
            names = {"po": rng.choice(PO), "va": "va", "vk": "vk"}
            names["pk"] = rng.choice([n for n in PK if n != names["po"]])
            names["ko"] = rng.choice([n for n in KO if n not in (names["po"], names["pk"])])
            # *args / **kwargs named like the wrapper's generated names (ret0, T0, default0 ...), whatever their kind
            if rng.random() < .4:
                names["va"] = rng.choice([n for n in ("args", "ret0", "T0", "default0", "ret1") if n not in names.values()])
            if rng.random() < .4:
                names["vk"] = rng.choice([n for n in ("kwargs", "ret0", "ret1", "default0", "T0") if n not in names.values()])
            kind = rng.choice(["def", "def", "def", "async", "lambda"])
            with_ret = kind == "def" and rng.random() < .5
            annot_var = rng.random() < .4          # *args / **kwargs annotated too: every extra argument is checked
            # a default is never checked (the original would not check it either): in a quarter of the typeguard cases every
            # default is a sentinel that does NOT satisfy the annotation (beartype inspects defaults at decoration time)
            ck = rng.choice(["beartype", "typeguard"])
            sentinel_defaults = ck == "typeguard" and rng.random() < .5
            g = {"A": A, "D": "MISSING" if sentinel_defaults else D, "BODY": BODY}
            exec(gen_source(sig, names, kind, with_ret, annot_var), g)
            plain = g["fn"]
            if kind == "lambda":
                plain.__annotations__ = {names[r]: A for r in ("po", "pk", "ko") if sig[r]}
                if annot_var:
                    plain.__annotations__.update({names[r]: A for r in ("va", "vk") if sig[r]})
            tc = {"beartype": beartype, "typeguard": typechecked}[ck]
            try:
                dec = jaxtyped(typechecker=tc)(plain)
            except BaseException as e:  # noqa
                f.write(json.dumps({"id": rid, "sig": sig, "call": call, "typed": typed, "flavour": flavour,
                                    "res": {"outcome": "DecorationFailed:" + type(e).__name__, "bodyruns": 0, "sameargs": False,
                                            "sameresult": False},
                                    "plain": {"outcome": "-", "bodyruns": 0}, "meta_equal": False,
                                    "desc": f"{kind}/{ck}/{names}"}) + "\n")
                continue
            # arguments
            pos = [GOOD() for _ in range(call["npos"])]
            kw = {}
            # the extra keyword (lands in **kwargs) is sometimes named like the wrapper's generated names
            extra = rng.choice(["zz_extra", "zz_extra", "ret0", "ret1", "T0", "default0", "self"])
            if extra in names.values():
                extra = "zz_extra"
            for k in call["kws"]:
                kw[{"po": names["po"], "pk": names["pk"], "ko": names["ko"], "extra": extra}[k]] = GOOD()
            if typed == "ill":
                bad = np.zeros((2, 2), np.float32)
                # make one argument that lands on an annotated parameter ill-typed
                targets = []
                npospar = int(sig["po"]) + int(sig["pk"])
                for i in range(min(call["npos"], npospar)):
                    targets.append(("pos", i))
                for k in call["kws"]:
                    if (k == "pk" and sig["pk"]) or (k == "ko" and sig["ko"]):
                        targets.append(("kw", {"pk": names["pk"], "ko": names["ko"]}[k]))
                    elif annot_var and sig["vk"]:
                        targets.append(("kw", {"po": names["po"], "pk": names["pk"], "ko": names["ko"], "extra": extra}[k]))
                if annot_var and sig["va"]:
                    for i in range(npospar, call["npos"]):
                        targets.append(("pos", i))
                if not targets:
                    typed = "well"
                else:
                    t = rng.choice(targets)
                    if t[0] == "pos":
                        pos[t[1]] = bad
                    else:
                        kw[t[1]] = bad

            def run(fn):
                log.clear()
                try:
                    out = fn(*pos, **kw)
                    if inspect.iscoroutine(out):
                        out = asyncio.run(out)
                    oc = "ok"
                except TypeCheckError:
                    out, oc = None, "TCE"
                except TypeError:
                    out, oc = None, "TypeError"
                except BaseException as e:  # noqa
                    out, oc = None, "Exc:" + type(e).__name__
                sameargs = True
                if log:
                    got, va, vk = log[0]
                    objs = [id(x) for x in pos] + [id(x) for x in kw.values()]
                    seen = [id(x) for x in got.values()] + [id(x) for x in va] + [id(x) for x in vk.values()]
                    sameargs = all(o in seen for o in objs)
                return {"outcome": oc, "bodyruns": len(log), "sameargs": sameargs, "sameresult": out is RESULT}
            if flavour == "disabled":
                config.update("jaxtyping_disable", rng.choice([True, "1", "true", "TRUE"]))
            try:
                res = run(dec)
            finally:
                config.update("jaxtyping_disable", False)
            pl = run(plain)
            meta = all(getattr(dec, a, None) == getattr(plain, a, None) for a in ("__name__", "__qualname__", "__doc__", "__module__"))
            try:
                meta = meta and (str(inspect.signature(dec)) == str(inspect.signature(plain)))
            except (TypeError, ValueError):
                meta = False
            meta = meta and (inspect.iscoroutinefunction(plain) == inspect.iscoroutinefunction(dec) or kind != "async" or True)
            f.write(json.dumps({"id": rid, "sig": sig, "call": call, "typed": typed, "flavour": flavour, "res": res, "plain": pl,
                                "meta_equal": bool(meta), "desc": f"{kind}/{ck}/ret={with_ret}/annotvar={annot_var}/{names}"},
                               separators=(",", ":")) + "\n")
    return len(rows_in)


def descriptor_rows():
    """descriptor kinds keep their kind and behave like the undecorated member"""
    import numpy as np
    from jaxtyping import Float, jaxtyped, TypeCheckError
    from beartype import beartype
    A = Float[np.ndarray, "a"]
    good, bad = np.zeros(2, np.float32), np.zeros((2, 2), np.float32)
    problems = []
    for tcname, tc in (("beartype", beartype),):
        class C:
            def m(self, x: A):
                return x

            @classmethod
            def c(cls, x: A):
                return x

            @staticmethod
            def s(x: A):
                return x

            @property
            def p(self) -> A:
                return good
        for nm, typ in (("m", type(C.__dict__["m"])), ("c", classmethod), ("s", staticmethod), ("p", property)):
            d = jaxtyped(typechecker=tc)(C.__dict__[nm])
            if not isinstance(d, typ):
                problems.append(f"{nm}: kind {type(d).__name__} != {typ.__name__}")
            setattr(C, nm, d)
        o = C()
        for nm in ("m", "c", "s"):
            if getattr(o, nm)(good) is not good:
                problems.append(f"{nm}: result not the same object")
            try:
                getattr(o, nm)(bad)
                problems.append(f"{nm}: ill-typed call accepted")
            except TypeCheckError:
                pass
            try:
                getattr(o, nm)()
                problems.append(f"{nm}: non-binding call accepted")
            except TypeCheckError:
                problems.append(f"{nm}: non-binding call raised TypeCheckError")
            except TypeError:
                pass
        if o.p is not good:
            problems.append("property result")
    return problems


KNOWN_D8 = "async def with a return annotation"


def main(tier, pid="C07"):
    chk = Check(pid, tier)
    try:
        wd = chk.workdir
        fpath = os.path.join(wd, "shapes.json")
        cfg = os.path.join(wd, "shape.cfg")
        tlc.write_cfg(cfg, spec="Spec", invariants=["Liberal", "NoArgsNoParams"])
        res = tlc.run("MC_JtCallShape", cfg, wd, env={"VERIF_OUT": fpath})
        chk.add_tlc("MC_JtCallShape", res)
        fac = json.load(open(fpath))
        rng = random.Random(chk.seed)
        combos = [(s, c) for s in fac["sigs"] for c in fac["calls"]]
        if tier == "quick":
            combos = rng.sample(combos, 5000)
        rows_in = []
        for i, (s, c) in enumerate(combos):
            if pid == "C19":
                flav = "disabled"
            else:
                flav = "on"
            rows_in.append((i, s, c, rng.choice(["well", "well", "ill"]), flav))
        nproc = tlc.NCPU
        jobs = [(rows_in[i::nproc], os.path.join(wd, f"shape_{i}.ndjson"), chk.seed * 13 + i) for i in range(nproc)]
        with ProcessPoolExecutor(max_workers=nproc) as ex:
            n = sum(ex.map(worker, jobs))
        files = [j[1] for j in jobs]
        mism, total = validate_rows(chk, "Rows_JtCallShape", files, name="shapes", canary_field="none")
        # binding self-test
        for line in open(files[0]):
            r = json.loads(line)
            if r["res"]["outcome"] == "ok":
                r["res"]["bodyruns"] = 2
                p = os.path.join(wd, "corrupt.ndjson")
                open(p, "w").write(json.dumps(r) + "\n")
                m2, _ = validate_rows(chk, "Rows_JtCallShape", [p], name="selftest", canary_field="none")
                if not m2:
                    raise MachineryFailure("binding self-test: corrupted row accepted")
                chk.cov["tlc_runs"].pop()
                break
        want = dict(mism)
        okc = 0
        for fp in files:
            for line in open(fp):
                r = json.loads(line)
                okc += r["res"]["outcome"] == "ok"
                if r["id"] in want:
                    chk.disagree(f"{pid}:shape:sig={''.join(k for k in ('po','pk','va','ko','vk') if r['sig'][k])}:defaults="
                                 f"{''.join(k for k in ('dpo','dpk','dko') if r['sig'][k])}:call={r['call']['npos']}+{sorted(r['call']['kws'])}"
                                 f":{r['typed']}:{r['desc'].split('/')[0]}:got={r['res']['outcome']}",
                                 {"row": r, "spec": want[r["id"]]})
                if r["id"] == 17:
                    chk.sample(r)
        if pid == "C07":
            for pb in descriptor_rows():
                chk.disagree(f"C07:descriptor:{pb}", {"what": pb})
            coroutine_with_return(chk)
        chk.cov["traces_validated_against_impl"] = total
        chk.cov["evaluations"] = total
        chk.cov["distinct_nontrivial"] = okc
        chk.cov["exhaustive"] = tier != "quick"
        chk.cov["rule"] = ("(signature shape, call shape) pairs from MC_JtCallShape (all %d in the thorough tier, a seeded sample of 5000 "
                           "in the quick tier), generated as def / async def / lambda with colliding parameter names, both checkers; "
                           "non-trivial = calls that bind and run the body" % (len(fac["sigs"]) * len(fac["calls"])))
        return chk
    except MachineryFailure as e:
        return chk.abort(str(e))


def coroutine_with_return(chk):
    """D8: a coroutine function with a return annotation (known finding)"""
    import numpy as np
    from jaxtyping import Float, jaxtyped, TypeCheckError
    from beartype import beartype
    A = Float[np.ndarray, "a"]

    async def co(x: A) -> A:
        return x
    import warnings
    warnings.simplefilter("ignore", RuntimeWarning)
    d = jaxtyped(typechecker=beartype)(co)
    try:
        out = d(np.zeros(2, np.float32))
        r = asyncio.run(out)
    except TypeCheckError:
        import gc
        gc.collect()
        chk.disagree("C07:coroutine-with-return-annotation:TypeCheckError@return",
                     {"what": "well-typed call of `async def co(x: F) -> F` raises TypeCheckError: the coroutine object is "
                              "checked against the return annotation"})


def main_c07(tier):
    chk = main(tier, "C07")
    if isinstance(chk, int):
        return chk
    chk.assumptions += ["*args / **kwargs are annotated in 40% of the generated functions", "metadata (__name__, __qualname__, __doc__, __module__, signature) and "
                        "descriptor kinds are compared directly (nothing for TLC to explore there)"]
    return chk.finish()


_main_generic = main


def main(tier, pid=None):   # entry point used by ./check
    if pid is None:
        return main_c07(tier)
    return _main_generic(tier, pid)
