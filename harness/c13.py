"""C13 - type-check errors are raised iff violated and describe the failure truthfully.

Oracle: JtWrapper.CallOutcome (stage, blamed parameter = first parameter in declared order that
fails given its predecessors, printed = exactly the bindings in force at that moment), decided
by TLC on every executed call (Rows_JtCall, level "full")."""
from .common import Check, MachineryFailure
from . import c02


def main(tier):
    chk = Check("C13", tier)
    try:
        opts = {"maxp": 4, "variants": dict(spellings=("new",), orders=False, dataclass=True, stack_switch=True)}
        st = c02.run_cases(chk, "C13", 2400 if tier == "quick" else 60000, opts, "c13")
        if st.get("TCE", 0) < 50:
            raise MachineryFailure("too few failing calls were generated")
        chk.cov["distinct_nontrivial"] = st.get("TCE", 0) + st.get("AnnErr", 0)
        chk.cov["states"] = max(chk.cov["states"], 1)
        chk.cov["rule"] = ("random signatures of 1..4 array parameters (+return), both typecheckers, positional / keyword / reversed "
                           "keyword, dataclass __init__, both values of jaxtyping_remove_typechecker_stack (with __cause__ "
                           "presence); message parsed into stage / function / blamed parameter / printed bindings and compared "
                           "with the specification by TLC; non-trivial = calls that raise")
        chk.assumptions += ["unions and PyTree-annotated parameters are not generated here",
                            "the message is parsed with regular expressions on its documented sentences"]
    except MachineryFailure as e:
        return chk.abort(str(e))
    return chk.finish()
