"""C13 - type-check errors are raised iff violated and describe the failure truthfully.

Oracle: JtWrapper.CallOutcome (stage, blamed parameter = first parameter in declared order that
fails given its predecessors, printed = exactly the bindings in force at that moment), decided
by TLC on every executed call (Rows_JtCall, level "full")."""
from .common import Check, MachineryFailure
from . import c02


def main(tier):
    chk = Check("C13", tier)
    try:
        opts = {"maxp": 4, "variants": dict(spellings=("new", "old"), orders=False, dataclass=True, stack_switch=True)}
        st = c02.run_cases(chk, "C13", 2400 if tier == "quick" else 60000, opts, "c13")
        if st.get("TCE", 0) < 50:
            raise MachineryFailure("too few failing calls were generated")
        nt = hint_cases(chk, 1600 if tier == "quick" else 40000)
        chk.cov["distinct_nontrivial"] = st.get("TCE", 0) + st.get("AnnErr", 0) + nt
        chk.cov["states"] = max(chk.cov["states"], 1)
        chk.cov["rule"] = ("random signatures of 1..4 array parameters (+return), both typecheckers, positional / keyword / reversed "
                           "keyword, dataclass __init__, both values of jaxtyping_remove_typechecker_stack (with __cause__ "
                           "presence); message parsed into stage / function / blamed parameter / printed bindings and compared "
                           "with the specification by TLC; non-trivial = calls that raise")
        chk.assumptions += ["parameters with unions / tuples / PyTrees are executed with typeguard only (beartype's member order and "
                            "container sampling are unspecified)",
                            "the message is parsed with regular expressions on its documented sentences"]
    except MachineryFailure as e:
        return chk.abort(str(e))
    return chk.finish()


# ---------------------------------------------------------------- parameters with unions / tuples / PyTrees
def _tok(mods, k, nm="", v=0):
    return {"mods": mods, "base": {"k": k, "nm": nm, "v": v, "e": []}}


def hint_catalogue():
    a, b, c = _tok([], "ident", "a"), _tok([], "ident", "b"), _tok([], "ident", "c")
    arr = lambda toks, cat="f": ["arr", toks, cat]
    S = {"pieces": ["T"], "dots": "none", "str": "T"}
    return {
        "A": arr([a]), "B": arr([b]), "AB": arr([a, b]), "V": arr([_tok(["*"], "ident", "v")]), "Ai": arr([a], "i"),
        "U_ab_ac": ["union", arr([a, b]), arr([a, c])], "U_ab_a": ["union", arr([a, b]), arr([a])],
        "U_Ai_A": ["union", arr([a], "i"), arr([a])], "U_A_int": ["union", arr([a]), ["int"]],
        "tupA": ["tupA", arr([a])], "U_tupA_V": ["union", ["tupA", arr([a])], arr([_tok(["*"], "ident", "v")])],
        "ptA": ["pt", arr([a])], "ptAB": ["pt", arr([a, b])], "ptV": ["pt", arr([_tok(["*"], "ident", "v")])],
        "ptBV": ["pt", arr([_tok(["#", "*"], "ident", "v")])], "ptVa": ["pt", arr([_tok(["*"], "ident", "v"), a])],
        "U_ptV_A": ["union", ["pt", arr([_tok(["*"], "ident", "v")])], arr([a])], "ptS_A": ["ptS", arr([a]), S],
        "ptS_Q": ["ptS", arr([_tok(["?"], "ident", "a")]), S], "ptS_any": ["ptS", ["any"], S],
    }


def rand_value(rng, sizes):
    def arr(shape, dt="f"):
        return {"k": "arr", "c": [], "keys": [], "shape": shape, "dt": dt}
    k = rng.random()
    s = lambda: rng.choice(sizes)
    if k < .35:
        return arr([s()])
    if k < .6:
        return arr([s(), s()])
    if k < .65:
        return arr([s()], "i")
    if k < .7:
        return {"k": "int", "c": [], "keys": [], "shape": [], "dt": ""}
    if k < .85:
        n = rng.randint(1, 3)
        return {"k": "tuple", "c": [arr([s()]) if rng.random() < .8 else arr([s(), s()]) for _ in range(n)], "keys": [], "shape": [], "dt": ""}
    if k < .93:
        return {"k": "tuple", "c": [arr([s()]), {"k": "int", "c": [], "keys": [], "shape": [], "dt": ""}], "keys": [], "shape": [], "dt": ""}
    return {"k": "dict", "c": [arr([s()]), arr([s()])], "keys": ["k1", "k2"], "shape": [], "dt": ""}


def hint_worker(args):
    seed, n, out_path, id0 = args
    import random
    import json as _json
    import numpy as np
    from jaxtyping import jaxtyped, TypeCheckError, AnnotationError
    from typeguard import typechecked
    from . import pytree_rows as P
    from . import calls
    rng = random.Random(seed)
    cat = hint_catalogue()
    names = sorted(cat)
    fcache = {}
    with open(out_path, "w") as f:
        for k in range(n):
            np_ = rng.choice([1, 2, 2, 3])
            hs = [rng.choice(names) for _ in range(np_)]
            sizes = rng.choice([[2, 3], [2, 2, 3], [1, 2, 4]])
            vals = [rand_value(rng, sizes) for _ in range(np_)]
            hasret = rng.random() < .4
            rh = rng.choice(["A", "AB", "B", "ptA"])
            rv = rand_value(rng, sizes)
            key = (tuple(hs), rh if hasret else None)
            fn = fcache.get(key)
            if fn is None:
                g = {"COUNTER": calls.COUNTER, "RET": calls.RET}
                ps = []
                for i, h in enumerate(hs):
                    g[f"H{i}"] = P.render_leaftype(cat[h])
                    ps.append(f"x{i}: H{i}")
                rs = ""
                if hasret:
                    g["RH"] = P.render_leaftype(cat[rh])
                    rs = " -> RH"
                exec(f"def f({', '.join(ps)}){rs}:\n    COUNTER[0] += 1\n    return RET[0]\n", g)
                fn = fcache[key] = jaxtyped(typechecker=typechecked)(g["f"])
            pyvals = [P.render_tree(v, rng) for v in vals]
            calls.RET[0] = P.render_tree(rv, rng) if hasret else None
            variants = []
            for pa in ("pos", "kw"):
                a_, kw = (pyvals, {}) if pa == "pos" else ([], {f"x{i}": v for i, v in enumerate(pyvals)})
                v = calls.classify(fn, a_, kw, "full")
                v["desc"] = f"typeguard/new/{pa}"
                pr = v.get("printed", {"single": {}, "variadic": {}})
                v["printed"] = {"single": {P.abs_key(kk): vv for kk, vv in pr["single"].items()},
                                "variadic": {P.abs_key(kk): vv for kk, vv in pr["variadic"].items()},
                                "structs": sorted(v.get("pytree_printed", {}))}
                variants.append(v)
            row = {"id": id0 + k, "params": [{"nm": f"x{i}", "hint": cat[h]} for i, h in enumerate(hs)], "vals": vals,
                   "hasret": hasret, "rethint": cat[rh] if hasret else ["any"], "retval": rv if hasret else vals[0], "args": {},
                   "variants": variants, "desc": f"f({', '.join(hs)})" + (f" -> {rh}" if hasret else "")}
            f.write(_json.dumps(row, separators=(",", ":")) + "\n")
    return n


def hint_cases(chk, ncases):
    import json
    import os
    from concurrent.futures import ProcessPoolExecutor
    from . import tlc
    from .common import validate_rows
    from . import pytree_rows as P
    nproc = tlc.NCPU
    per = max(1, ncases // nproc)
    jobs = [(chk.seed * 7 + i, per, os.path.join(chk.workdir, f"hint_{i}.ndjson"), i * 1_000_000) for i in range(nproc)]
    with ProcessPoolExecutor(max_workers=nproc) as ex:
        n = sum(ex.map(hint_worker, jobs))
    files = [j[2] for j in jobs]
    mism, total = validate_rows(chk, "Rows_JtCall2", files, name="hints", canary_field="none", heap="4g")
    want = dict(mism)
    nt = 0
    for fp in files:
        for line in open(fp):
            r = json.loads(line)
            o = r["variants"][0]["outcome"]
            nt += o != "ok"
            if r["id"] in want:
                vs = "; ".join(P.tree_str(v) for v in r["vals"])
                chk.disagree(f"C13:hints:{r['desc']}:({vs}):got={o}/{r['variants'][0].get('stage')}/{r['variants'][0].get('blamed')}",
                             {"row": r, "spec_expected": want[r["id"]]})
            if r["id"] % 1_000_000 == 2:
                chk.sample({"call": r["desc"], "values": [P.tree_str(v) for v in r["vals"]], "observed": r["variants"][0]}, limit=5)
    # binding self-test
    for line in open(files[0]):
        r = json.loads(line)
        if r["variants"][0]["outcome"] == "TCE" and r["variants"][0]["stage"] == "params":
            r["variants"][0]["blamed"] = "x9"
            p = os.path.join(chk.workdir, "hintcorrupt.ndjson")
            open(p, "w").write(json.dumps(r) + "\n")
            m2, _ = validate_rows(chk, "Rows_JtCall2", [p], name="selftest", canary_field="none")
            chk.cov["tlc_runs"].pop()
            if not m2:
                raise MachineryFailure("binding self-test: corrupted blamed parameter accepted")
            break
    chk.cov["traces_validated_against_impl"] += 2 * total
    chk.cov["evaluations"] += 2 * total
    chk.part("hint_cases", cases=total, rejected_or_raising=nt)
    return nt
