------------------------- MODULE Rows_JtPyTreeSuite -------------------------
(* code -> spec: the PyTree[...] checks performed by the repository's OWN test-suite, recorded by  *)
(* harness/jt_verif_plugin.py in the specification's vocabulary.  A check made outside every        *)
(* context (instack = FALSE) starts from the empty context and leaves nothing behind to compare.   *)
(* Rows outside the vocabulary arrive as `unsupported` and are only counted.                       *)
EXTENDS JtPyTree, Json, IOUtils

Rows == ndJsonDeserialize(IOEnv.VERIF_ROWS)

Spec0(r) == PyTreeCheck(r.L, r.S, r.x, r.pre, r.args, NoLabel, FALSE)
Expected(r) == Spec0(r)
RowOK(r) == IF r.unsupported THEN TRUE
            ELSE LET c == Spec0(r) IN
                 /\ r.res = c.r
                 /\ r.instack => r.post = (IF r.res = "T" THEN c.memo ELSE r.pre)

VARIABLES l, nbad
vars == <<l, nbad>>
Init == l = 1 /\ nbad = 0
Next == /\ l <= Len(Rows)
        /\ LET r == Rows[l]  ok == RowOK(r) IN
           /\ (IF ok THEN TRUE ELSE PrintT(<<"MISMATCH", r.id, ToJson(Expected(r))>>))
           /\ nbad' = IF ok THEN nbad ELSE nbad + 1
           /\ (IF l < Len(Rows) THEN TRUE ELSE PrintT(<<"DONE", Len(Rows), nbad'>>))
        /\ l' = l + 1
Spec == Init /\ [][Next]_vars
=============================================================================
