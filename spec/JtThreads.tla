------------------------------- MODULE JtThreads -------------------------------
(***************************************************************************)
(* N threads, each running a fixed workload, at STORAGE-ACCESS granularity: *)
(* one action per call into the binding / flag storage                      *)
(*   push pop get set has        (the context stack)                        *)
(*   set_flatten clear_flatten get_flatten   ("only look at the array type") *)
(*   set_label clear_label get_label         (current '?'-leaf position)     *)
(* A context switch is possible before every such access.                   *)
(*                                                                         *)
(* Storage cells hold the identity of their last writer (thread, op index). *)
(* SharedStorage = FALSE : every thread has its own three cells (as with     *)
(*                         threading.local)                                  *)
(*               = TRUE  : one set of cells for all threads (the broken      *)
(*                         variant - TLC must refute Isolation)              *)
(* Isolation: whatever a thread reads was written by that thread itself.     *)
(* The schedules TLC enumerates (bounded number of preemptions) are replayed *)
(* on the implementation with a forced scheduler.                            *)
(***************************************************************************)
EXTENDS Integers, Sequences, FiniteSets, TLC, Json

CONSTANTS Ops,            \* <<ops of thread 1, ops of thread 2, ...>> : sequences of op names
          SharedStorage, MaxPreempt

Threads == DOMAIN Ops
Cell(op) == CASE op \in {"push", "pop", "get", "set", "has"} -> "stack"
              [] op \in {"set_flatten", "clear_flatten", "get_flatten"} -> "flatten"
              [] op \in {"set_label", "clear_label", "get_label"} -> "label"
              [] OTHER -> "misc"       \* "unknown": an access the harness could not classify (reads and writes);
                                       \* "other" / "fmt": a pure preemption point inside the package
IsRead(op) == op \in {"get", "has", "get_flatten", "get_label", "pop", "unknown"}
IsWrite(op) == op \in {"push", "pop", "set", "set_flatten", "clear_flatten", "set_label", "clear_label", "unknown"}
Cells == {"stack", "flatten", "label", "misc"}
Owner(t) == IF SharedStorage THEN 0 ELSE t
None == [t |-> 0, i |-> 0]

VARIABLES pc, store, reads, sched, last, preempts
vars == <<pc, store, reads, sched, last, preempts>>

Init == /\ pc = [t \in Threads |-> 1]
        /\ store = [o \in (IF SharedStorage THEN {0} ELSE Threads) |-> [c \in Cells |-> None]]
        /\ reads = [t \in Threads |-> << >>]
        /\ sched = << >> /\ last = 0 /\ preempts = 0

Enabled(t) == pc[t] <= Len(Ops[t])
Step(t) ==
  /\ Enabled(t)
  /\ LET op == Ops[t][pc[t]]   c == Cell(op)   o == Owner(t) IN
     /\ reads' = IF IsRead(op) THEN [reads EXCEPT ![t] = Append(@, store[o][c])] ELSE reads
     /\ store' = IF IsWrite(op) THEN [store EXCEPT ![o][c] = [t |-> t, i |-> pc[t]]] ELSE store
  /\ pc' = [pc EXCEPT ![t] = @ + 1]
  /\ sched' = Append(sched, t)
  \* a preemption: switching away from a thread that could still run
  /\ preempts' = IF last # 0 /\ last # t /\ Enabled(last) THEN preempts + 1 ELSE preempts
  /\ preempts' <= MaxPreempt
  /\ last' = t
Next == \E t \in Threads : Step(t)
Spec == Init /\ [][Next]_vars

Finished == \A t \in Threads : ~Enabled(t)
\* every value a thread reads is one it wrote itself (or the initial value)
Isolation == \A t \in Threads : \A i \in DOMAIN reads[t] : reads[t][i].t \in {0, t}
Emit == IF Finished THEN PrintT(<<"SCHED", ToJson(sched)>>) ELSE TRUE
=============================================================================
