------------------------------- MODULE MC_JtDims -------------------------------
(***************************************************************************)
(* All axis tokens of up to MaxMods modifier characters (in every order,    *)
(* repeats included) over six bases; theorems of JtDims checked on each;    *)
(* the probe set used to compare the MEANING of every legal specification   *)
(* with the implementation (acceptance vector under fixed prior bindings).  *)
(***************************************************************************)
EXTENDS JtArray

MaxMods == 4
ModSeq == {"#", "*", "_", "?", "="}
SeqsUpTo(S, n) == UNION {[1..m -> S] : m \in 0..n}

SymA1 == <<"+", <<"n", "a">>, <<"i", 1>>>>
Bases == {Base("ident", "a", 0, NoExpr), Base("ident", "v", 0, NoExpr), Base("int", "", 2, NoExpr),
          Base("sym", "", 0, SymA1), Base("sym", "", 0, <<"a", "n">>),
          Base("empty", "", 0, NoExpr), Base("dots", "", 0, NoExpr), Base("comma", "", 0, NoExpr),
          Base("trailhash", "", 0, NoExpr)}
AllToks == {Tok(m, b) : m \in SeqsUpTo(ModSeq, MaxMods), b \in Bases}

\* a reduced alphabet for multi-token specifications
T0(mods, b) == Tok(mods, b)
Reduced == {T0(<< >>, Base("ident", "a", 0, NoExpr)), T0(<<"#">>, Base("ident", "b", 0, NoExpr)),
            T0(<< >>, Base("int", "", 2, NoExpr)), T0(<<"#">>, Base("int", "", 3, NoExpr)),
            T0(<<"*">>, Base("ident", "v", 0, NoExpr)), T0(<<"*", "#">>, Base("ident", "v", 0, NoExpr)),
            T0(<< >>, Base("dots", "", 0, NoExpr)), T0(<<"_">>, Base("empty", "", 0, NoExpr)),
            T0(<< >>, Base("sym", "", 0, SymA1)), T0(<<"?">>, Base("ident", "a", 0, NoExpr)),
            T0(<<"=">>, Base("int", "", 2, NoExpr)),
            \* a comma-separated token next to a (legal) token that itself contains a comma and brackets
            T0(<< >>, Base("comma", "", 0, NoExpr)), T0(<< >>, Base("sym", "", 0, <<"min", <<"n", "a">>, <<"i", 2>>>>))}

\* fixed context under which legal specifications are probed
Args == [n |-> 2]
Lab == "L"          \* stands for "the leaf position of a one-leaf structured PyTree"
Prior == Memo([a |-> 2, b |-> 3], [v |-> [b |-> FALSE, s |-> <<2>>]])
PriorQ == Memo([a |-> 2, b |-> 3, La |-> 3],
               [v |-> [b |-> FALSE, s |-> <<2>>], Lv |-> [b |-> FALSE, s |-> <<3>>]])
Probes == << << >>, <<0>>, <<1>>, <<2>>, <<3>>, <<1, 1>>, <<2, 1>>, <<2, 2>>, <<2, 3>>, <<3, 2>>,
             <<3, 3>>, <<1, 2, 3>>, <<2, 3, 2>>, <<3, 2, 2>>, <<2, 2, 2, 2>> >>

UsesQ(toks) == \E i \in DOMAIN toks : "?" \in Range(toks[i].mods)
ProbeObj(s) == [inst |-> TRUE, dtin |-> TRUE, shape |-> s]
\* what each probe may answer for a legal specification
VecAllowed(toks) ==
  LET d == ParseSpec(toks).dims
      q == UsesQ(toks)
  IN [i \in DOMAIN Probes |->
        Allowed(d, ProbeObj(Probes[i]), IF q THEN PriorQ ELSE Prior, Args, IF q THEN Lab ELSE NoLabel, FALSE)]

VARIABLE tok
Init == tok \in AllToks
Next == UNCHANGED tok
Spec == Init /\ [][Next]_tok

AllTheorems == Total(tok) /\ OrderFree(tok) /\ EqNeutral(tok)
\* '...' is '*_'
DotsIsStarUnderscore ==
  ParseTok(Tok(<< >>, Base("dots", "", 0, NoExpr))).dim = ParseTok(Tok(<<"*", "_">>, Base("empty", "", 0, NoExpr))).dim
=============================================================================
