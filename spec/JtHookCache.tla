------------------------------ MODULE JtHookCache ------------------------------
(***************************************************************************)
(* Bytecode caches across runs of one program directory.                    *)
(* Persistent: src[m]   the version of m's source on disk                   *)
(*             cache[m][tag] = the code object cached under that tag        *)
(*                             ([ver, instr]); tags: "std" (the interpreter's *)
(*                             own) and one per typechecker (the hook's      *)
(*                             'opt-jaxtyping<hash>' tag)                    *)
(* Per run:    hooked, checker, the stack of imports in progress, loaded[m]  *)
(*             = the code actually executed for m in this run                *)
(* A module's body performs its nested imports (Imports[m]).                 *)
(* PatchScope = "get_code"    : the hook's tag is used only when the hook's  *)
(*                              loader fetches code for its own module       *)
(*            = "exec_module" : the tag override stays active while the      *)
(*                              hooked module's body runs, i.e. also for the *)
(*                              modules it imports (defect D4; TLC refutes)  *)
(*            = "compile_window": the typechecker package is imported while  *)
(*                              the hooked module is being COMPILED (inside  *)
(*                              the tag override) instead of when its first  *)
(*                              decorated function is defined (TLC refutes)  *)
(*            = "skip_when_disabled": with JAXTYPING_DISABLE set the hook    *)
(*                              compiles the module without instrumentation  *)
(*                              but still caches it under its tag (refuted)  *)
(* The typechecker is named by a string; its package is imported when the    *)
(* first decorated function of a hooked module is defined, and may itself    *)
(* import project modules (CheckerImports).  A run may have checking         *)
(* switched off (disabled): the code is instrumented all the same - the      *)
(* switch is read at call time - so what is cached does not depend on it.    *)
(* Fresh: every executed code object is what the current source and the      *)
(* current hook configuration call for.                                      *)
(***************************************************************************)
EXTENDS Integers, Sequences, FiniteSets, TLC, Json

CONSTANTS Modules, Imports, Checkers, PatchScope, MaxRuns, MaxEdits, CheckerImports

Plain == "plain"
NoCode == [ver |-> -1, instr |-> "none"]
Tags == {"std"} \cup Checkers

\* nowrite : this run has sys.dont_write_bytecode set (caches are still READ)
\* leak    : a tag override left behind in this process ("none" in every correct variant)
\* disabled: this run has JAXTYPING_DISABLE set
VARIABLES src, cache, run, edits, phase, hooked, checker, loaded, stack, order, runs, nowrite, leak, disabled
vars == <<src, cache, run, edits, phase, hooked, checker, loaded, stack, order, runs, nowrite, leak, disabled>>
Broken == "X"     \* a module whose source does not compile; importing it fails (and the program carries on)

Init == /\ src = [m \in Modules |-> 0]
        /\ cache = [m \in Modules |-> [t \in Tags |-> NoCode]]
        /\ run = 0 /\ edits = 0 /\ phase = "idle"
        /\ hooked = {} /\ checker = "none"
        /\ loaded = [m \in Modules |-> NoCode]
        /\ stack = << >> /\ order = << >> /\ runs = << >> /\ nowrite = FALSE /\ leak = "none"
        /\ disabled = FALSE

StartRun(h, c, nw, dis) == /\ phase = "idle" /\ run < MaxRuns /\ disabled' = dis
                  /\ run' = run + 1 /\ phase' = "running"
                  /\ hooked' = h /\ checker' = c /\ nowrite' = nw /\ leak' = "none"
                  /\ loaded' = [m \in Modules |-> NoCode] /\ order' = << >>
                  /\ UNCHANGED <<src, cache, edits, stack, runs>>

Edit(m) == /\ phase = "idle" /\ edits < MaxEdits
           /\ src' = [src EXCEPT ![m] = @ + 1] /\ edits' = edits + 1
           /\ runs' = Append(runs, [kind |-> "edit", mod |-> m])
           /\ UNCHANGED <<cache, run, phase, hooked, checker, loaded, stack, order, nowrite, leak, disabled>>

\* fetching the code of module n while `patch` is the tag override left active by an enclosing hooked module
Fetch(n, patch) ==
  LET isHooked == n \in hooked /\ checker # "none"
      want     == [ver |-> src[n], instr |-> IF isHooked /\ ~(PatchScope = "skip_when_disabled" /\ disabled)
                                             THEN checker ELSE Plain]
      tag      == IF isHooked THEN (IF PatchScope = "skip_when_nowrite" /\ nowrite THEN "std" ELSE checker)
                  ELSE IF PatchScope \in {"exec_module", "compile_window"} /\ patch # "none" THEN patch
                  ELSE IF leak # "none" THEN leak
                  ELSE "std"
      hit      == cache[n][tag].ver = src[n]
      code     == IF hit THEN cache[n][tag] ELSE want
      newpatch == IF PatchScope = "exec_module" THEN (IF isHooked THEN checker ELSE patch) ELSE "none"
      \* the imports performed by n's body, in order: its own, then (first decorated def) the typechecker package's;
      \* in the "compile_window" variant the latter happen first, on a cache miss, inside the tag override
      ck       == IF isHooked THEN CheckerImports[checker] ELSE << >>
      early    == IF PatchScope = "compile_window" /\ isHooked /\ ~hit THEN ck ELSE << >>
  IN [code |-> code, tag |-> tag, hit |-> hit, want |-> want, patch |-> newpatch,
      todo |-> early \o Imports[n] \o ck, win |-> Len(early), wtag |-> checker]

TopImport(m) ==
  /\ phase = "running" /\ stack = << >> /\ loaded[m] = NoCode
  /\ LET f == Fetch(m, "none") IN
     /\ loaded' = [loaded EXCEPT ![m] = f.code]
     /\ cache' = IF f.hit \/ nowrite THEN cache ELSE [cache EXCEPT ![m][f.tag] = f.want]
     /\ stack' = <<[m |-> m, todo |-> f.todo, patch |-> f.patch, win |-> f.win, wtag |-> f.wtag]>>
  /\ order' = Append(order, m)
  /\ UNCHANGED <<src, run, edits, phase, hooked, checker, runs, nowrite, leak, disabled>>

\* `import X` fails to compile; the program catches the error and carries on.  Nothing may change.
ImportBroken ==
  /\ phase = "running" /\ stack = << >> /\ Broken \notin {order[i] : i \in DOMAIN order}
  /\ order' = Append(order, Broken)
  /\ leak' = IF PatchScope = "leak_on_error" /\ Broken \in hooked /\ checker # "none" THEN checker ELSE leak
  /\ UNCHANGED <<src, cache, run, edits, phase, hooked, checker, loaded, stack, runs, nowrite, disabled>>

Step == /\ phase = "running" /\ stack # << >>
        /\ LET top == stack[Len(stack)] IN
           IF top.todo = << >> THEN
                /\ stack' = SubSeq(stack, 1, Len(stack) - 1)
                /\ UNCHANGED <<src, cache, run, edits, phase, hooked, checker, loaded, order, runs, nowrite, leak, disabled>>
           ELSE LET n == Head(top.todo)
                    popped == [stack EXCEPT ![Len(stack)].todo = Tail(top.todo),
                                            ![Len(stack)].win = IF top.win > 0 THEN top.win - 1 ELSE 0] IN
                IF loaded[n] # NoCode THEN
                     /\ stack' = popped
                     /\ UNCHANGED <<src, cache, run, edits, phase, hooked, checker, loaded, order, runs, nowrite, leak, disabled>>
                ELSE LET f == Fetch(n, IF top.win > 0 THEN top.wtag ELSE top.patch)     \* win > 0 only in "compile_window"
                         g == f IN
                     /\ loaded' = [loaded EXCEPT ![n] = g.code]
                     /\ cache' = IF g.hit \/ nowrite THEN cache ELSE [cache EXCEPT ![n][g.tag] = g.want]
                     /\ stack' = Append(popped, [m |-> n, todo |-> g.todo, patch |-> g.patch, win |-> g.win, wtag |-> g.wtag])
                     /\ UNCHANGED <<src, run, edits, phase, hooked, checker, order, runs, nowrite, leak, disabled>>

EndRun == /\ phase = "running" /\ stack = << >> /\ order # << >>
          /\ phase' = "idle"
          /\ runs' = Append(runs, [kind |-> "run", hooked |-> hooked, checker |-> checker, order |-> order,
                                   nowrite |-> nowrite, disabled |-> disabled, result |-> loaded])
          /\ UNCHANGED <<src, cache, run, edits, hooked, checker, loaded, stack, order, nowrite, leak, disabled>>

Next == \/ \E h \in SUBSET (Modules \cup {Broken}), c \in Checkers \cup {"none"}, nw \in BOOLEAN, dis \in BOOLEAN :
                StartRun(h, c, nw, dis)
        \/ \E m \in Modules : Edit(m) \/ TopImport(m)
        \/ ImportBroken \/ Step \/ EndRun
Spec == Init /\ [][Next]_vars

Fresh == phase = "running" => \A m \in Modules : loaded[m] # NoCode =>
            loaded[m] = [ver |-> src[m], instr |-> IF m \in hooked /\ checker # "none" THEN checker ELSE Plain]
\* a cached code object is never stored under a tag that does not describe it
CacheTagged == \A m \in Modules, t \in Tags : cache[m][t] # NoCode =>
                  cache[m][t].instr = (IF t = "std" THEN Plain ELSE t)
View == <<src, cache, run, edits, phase, hooked, checker, loaded, stack, order, nowrite, leak, disabled>>
Emit == IF phase = "idle" /\ run = MaxRuns THEN PrintT(<<"HIST", ToJson(runs)>>) ELSE TRUE
\* the package of typechecker "c2" imports the project module B when it is first imported
CkImpB == [c \in Checkers |-> IF c = "c2" THEN <<"B">> ELSE << >>]
ImportsAB == [m \in Modules |-> IF m = "A" THEN <<"B">> ELSE << >>]
ImportsABC == [m \in Modules |-> IF m = "A" THEN <<"B">> ELSE IF m = "C" THEN <<"A">> ELSE << >>]
=============================================================================
