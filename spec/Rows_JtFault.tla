----------------------------- MODULE Rows_JtFault -----------------------------
(***************************************************************************)
(* code -> spec for C04.  Each row is one array check executed on the       *)
(* implementation, possibly with a fault injected into user code that runs  *)
(* during the check (the k-th access of the array's shape, the k-th          *)
(* __format__ of an {arg}), followed by                                      *)
(*   - a repetition of the same check when it passed (idempotence), and     *)
(*   - follow-up probe checks, one per name the failed check could have      *)
(*     bound, whose verdict differs if a stale binding exists.               *)
(***************************************************************************)
EXTENDS JtArray, Json, IOUtils

Rows == ndJsonDeserialize(IOEnv.VERIF_ROWS)
ProbeSize == 7

\* a probe `isinstance(zeros((7,)), Float["nm"])` / `zeros((7,7))` vs "*nm" made after a failed check
ProbeExpected(pr, pre) ==
  IF pr.var THEN CheckShape(<<NamedVar(pr.nm, FALSE, FALSE)>>, <<ProbeSize, ProbeSize>>, pre, EmptyFn, NoLabel).r
  ELSE CheckShape(<<Named(pr.nm, FALSE, FALSE)>>, <<ProbeSize>>, pre, EmptyFn, NoLabel).r

Expected(r) ==
  LET p == ParseSpec(r.toks)
      c == ArrayCheck(p.dims, r.obj, r.pre, r.args, r.lab, r.fl) IN
  [r |-> IF r.raised THEN "raised: post must equal pre" ELSE c.r, post |-> IF r.raised THEN r.pre ELSE c.memo,
   probes |-> [i \in DOMAIN r.probes |-> ProbeExpected(r.probes[i], r.pre)]]

RowOK(r) ==
  LET p == ParseSpec(r.toks) IN
  /\ p.ok
  /\ LET c == ArrayCheck(p.dims, r.obj, r.pre, r.args, r.lab, r.fl) IN
     /\ IF r.raised THEN r.post = r.pre
        ELSE /\ r.res \in AllowedFrom(c, p.dims, r.obj, r.pre, r.args, r.lab, r.fl)
             /\ IF r.res = "T" /\ c.r = "T" THEN r.post = c.memo ELSE r.post = r.pre
     /\ (r.res = "T" /\ ~r.raised) => (r.again.res = "T" /\ r.again.post = r.post)
     /\ (r.res # "T" \/ r.raised) => \A i \in DOMAIN r.probes : r.probes[i].res = ProbeExpected(r.probes[i], r.pre)

VARIABLES l, nbad
vars == <<l, nbad>>
Init == l = 1 /\ nbad = 0
Next == /\ l <= Len(Rows)
        /\ LET r == Rows[l]  ok == RowOK(r) IN
           /\ (IF ok THEN TRUE ELSE PrintT(<<"MISMATCH", r.id, ToJson(Expected(r))>>))
           /\ nbad' = IF ok THEN nbad ELSE nbad + 1
           /\ (IF l < Len(Rows) THEN TRUE ELSE PrintT(<<"DONE", Len(Rows), nbad'>>))
        /\ l' = l + 1
Spec == Init /\ [][Next]_vars
=============================================================================
