------------------------------ MODULE JtHookScope ------------------------------
(***************************************************************************)
(* Which modules the import hook instruments.                               *)
(* Module names are SEQUENCES of segments (<<"foo","sub","leaf">>), so that  *)
(* "lies beneath" is prefix on segments - a mere string prefix ("foobar" for *)
(* "foo") is not.                                                           *)
(* metaPath : the installed hooks, most recently installed FIRST            *)
(* loaded   : module -> "plain" | checker that instrumented it              *)
(* Importing a module first imports its parent packages, then runs its body, *)
(* which performs the module's own (nested) imports.  Only first-time        *)
(* imports go through the finders.                                           *)
(***************************************************************************)
EXTENDS Integers, Sequences, FiniteSets, TLC, Json

CONSTANTS MaxSteps, MaxHooks

Mods == { <<"foo">>, <<"foo", "sub">>, <<"foo", "sub", "leaf">>, <<"foo", "mod">>,
          <<"foobar">>, <<"foobar", "mod">>, <<"foo_x">>, <<"plain">> }
\* nested imports performed by a module's body
Imports(m) == IF m = <<"foo", "mod">> THEN {<<"foobar", "mod">>}
              ELSE IF m = <<"plain">> THEN {<<"foo", "sub", "leaf">>} ELSE {}
Checkers == {"A", "B", "None"}
HookNames == { {<<"foo">>}, {<<"foo", "sub">>}, {<<"foobar", "mod">>}, {<<"plain">>}, {<<"foo">>, <<"foobar">>},
               {<<"foo", "sub">>, <<"foo_x">>}, {<<"foo", "mod">>} }

IsPrefixSeq(n, m) == Len(n) <= Len(m) /\ SubSeq(m, 1, Len(n)) = n
Matches(h, m) == \E n \in h.names : IsPrefixSeq(n, m)
\* the checker of the first hook on the path that claims m; "plain" if none does
InstrBy(path, m) ==
  IF \E i \in DOMAIN path : Matches(path[i], m)
  THEN path[CHOOSE i \in DOMAIN path : Matches(path[i], m) /\ \A j \in DOMAIN path : j < i => ~Matches(path[j], m)].checker
  ELSE "plain"

VARIABLES metaPath, loaded, nextId, obs, hist, ohist
vars == <<metaPath, loaded, nextId, obs, hist, ohist>>
Init == metaPath = << >> /\ loaded = [m \in {} |-> "x"] /\ nextId = 1 /\ obs = "init" /\ hist = << >> /\ ohist = << >>
Can == Len(hist) < MaxSteps
Rec(a, o) == hist' = Append(hist, a) /\ obs' = o /\ ohist' = Append(ohist, o)

Install(names, c) ==
  /\ Can /\ Len(metaPath) < MaxHooks
  /\ metaPath' = <<[id |-> nextId, names |-> names, checker |-> c]>> \o metaPath      \* front of the path
  /\ nextId' = nextId + 1 /\ UNCHANGED loaded
  /\ Rec([op |-> "install", names |-> names, checker |-> c, id |-> nextId], "ok")

\* idempotent; also models leaving the with-block
Uninstall(id) ==
  /\ Can /\ id < nextId
  /\ metaPath' = SelectSeq(metaPath, LAMBDA h : h.id # id)
  /\ UNCHANGED <<loaded, nextId>> /\ Rec([op |-> "uninstall", id |-> id], "ok")

\* the set of modules loaded by `import m`, in dependency order, each instrumented per the path NOW
RECURSIVE LoadAll(_, _)
LoadAll(todo, ld) ==
  IF todo = << >> THEN ld
  ELSE LET m == Head(todo) IN
       IF m \in DOMAIN ld THEN LoadAll(Tail(todo), ld)
       ELSE LET parents == [i \in 1..(Len(m) - 1) |-> SubSeq(m, 1, i)]
                missing == SelectSeq(parents, LAMBDA p : p \notin DOMAIN ld)
            IN IF missing # << >> THEN LoadAll(missing \o todo, ld)
               ELSE LET ld2 == [x \in DOMAIN ld \cup {m} |-> IF x = m THEN InstrBy(metaPath, m) ELSE ld[x]]
                        nested == Imports(m)
                    IN LoadAll((IF nested = {} THEN << >> ELSE <<CHOOSE x \in nested : TRUE>>) \o Tail(todo), ld2)

Import(m) ==
  /\ Can
  /\ loaded' = LoadAll(<<m>>, loaded)
  /\ UNCHANGED <<metaPath, nextId>>
  /\ Rec([op |-> "import", mod |-> m],
         [x \in DOMAIN loaded' \ DOMAIN loaded |-> loaded'[x]])     \* what this import loaded, and how

Next == \/ \E names \in HookNames, c \in Checkers : Install(names, c)
        \/ \E id \in 1..MaxHooks : Uninstall(id)
        \/ \E m \in Mods : Import(m)
Spec == Init /\ [][Next]_vars

\* a loaded module never changes its instrumentation afterwards
Sticky == [][\A m \in DOMAIN loaded : m \in DOMAIN loaded' /\ loaded'[m] = loaded[m]]_vars
\* with no hook installed everything loads unmodified
NoHookPlain == (metaPath = << >> /\ hist # << >> /\ hist[Len(hist)].op = "import") =>
                  \A m \in DOMAIN obs : obs[m] = "plain"
\* a sibling that merely shares a string prefix is never claimed by a hook for "foo"
PrefixIsNotBeneath == ~Matches([names |-> {<<"foo">>}], <<"foobar", "mod">>) /\ ~Matches([names |-> {<<"foo">>}], <<"foo_x">>)
View == <<metaPath, loaded, nextId>>
Emit == IF Len(hist) = MaxSteps THEN PrintT(<<"BEH", ToJson([hist |-> hist, obs |-> ohist])>>) ELSE TRUE
=============================================================================
