--------------------------- MODULE Rows_JtRollback ---------------------------
(* code -> spec: EVERY PyTree[...] check performed while a battery of nested hints is evaluated - the outermost     *)
(* ones and those that run inside them (as a member of a Union leaf type, as the `is_leaf` predicate while the      *)
(* enclosing check flattens, as the leaf check proper) - recorded with the context before and after.  The theorem   *)
(* Rollback of the specification (MC_JtPyTree), instantiated on each recorded check: a check that does not pass     *)
(* leaves the context exactly as it found it; and neither transient flag changes across a check.                    *)
EXTENDS Json, IOUtils, TLC, Sequences, Naturals
Rows == ndJsonDeserialize(IOEnv.VERIF_ROWS)
RowOK(r) == /\ r.res \in {"T", "F", "E"}
            /\ (r.res # "T") => (r.post = r.pre)
            /\ r.flags_after = r.flags_before
Expected(r) == [post |-> r.pre, flags_after |-> r.flags_before]
VARIABLES l, nbad
vars == <<l, nbad>>
Init == l = 1 /\ nbad = 0
Next == /\ l <= Len(Rows)
        /\ LET r == Rows[l]  ok == RowOK(r) IN
           /\ (IF ok THEN TRUE ELSE PrintT(<<"MISMATCH", r.id, ToJson(Expected(r))>>))
           /\ nbad' = IF ok THEN nbad ELSE nbad + 1
           /\ (IF l < Len(Rows) THEN TRUE ELSE PrintT(<<"DONE", Len(Rows), nbad'>>))
        /\ l' = l + 1
Spec == Init /\ [][Next]_vars
=============================================================================
