------------------------------ MODULE Rows_JtSuite ------------------------------
(* code -> spec: array checks recorded while the REPOSITORY'S OWN test-suite ran under          *)
(* instrumentation. Whether the dtype belongs to the category is decided by JtDtypes, the rest  *)
(* by JtArray, exactly as for generated rows.                                                   *)
EXTENDS JtDtypes, JtArray, Json, IOUtils

Rows == ndJsonDeserialize(IOEnv.VERIF_ROWS)
Obj(r) == [inst |-> r.obj.inst, dtin |-> IF r.obj.inst THEN Accepts(r.cat, r.cls) ELSE TRUE, shape |-> r.obj.shape]
Expected(r) ==
  LET p == ParseSpec(r.toks) IN
  IF ~p.ok THEN [parse |-> "illegal", why |-> p.why]
  ELSE LET c == ArrayCheck(p.dims, Obj(r), r.pre, r.args, r.lab, r.fl) IN
       [parse |-> "ok", r |-> c.r, allowed |-> AllowedFrom(c, p.dims, Obj(r), r.pre, r.args, r.lab, r.fl), post |-> c.memo]
RowOK(r) ==
  r.unsupported \/
  LET p == ParseSpec(r.toks) IN
  /\ p.ok
  /\ LET c == ArrayCheck(p.dims, Obj(r), r.pre, r.args, r.lab, r.fl) IN
     /\ r.res \in AllowedFrom(c, p.dims, Obj(r), r.pre, r.args, r.lab, r.fl)
     \* outside every context nothing persists; inside, commit or rollback exactly as specified
     /\ (r.instack => IF r.res = "T" /\ c.r = "T" THEN r.post = c.memo ELSE r.post = r.pre)
VARIABLES l, nbad
vars == <<l, nbad>>
Init == l = 1 /\ nbad = 0
Next == /\ l <= Len(Rows)
        /\ LET r == Rows[l]  ok == RowOK(r) IN
           /\ (IF ok THEN TRUE ELSE PrintT(<<"MISMATCH", r.id, ToJson(Expected(r))>>))
           /\ nbad' = IF ok THEN nbad ELSE nbad + 1
           /\ (IF l < Len(Rows) THEN TRUE ELSE PrintT(<<"DONE", Len(Rows), nbad'>>))
        /\ l' = l + 1
Spec == Init /\ [][Next]_vars
=============================================================================
