---- MODULE JtCheckFine_TTrace_1791025414 ----
EXTENDS Sequences, TLCExt, Toolbox, JtCheckFine, Naturals, TLC

_expression ==
    LET JtCheckFine_TEExpression == INSTANCE JtCheckFine_TEExpression
    IN JtCheckFine_TEExpression!expression
----

_trace ==
    LET JtCheckFine_TETrace == INSTANCE JtCheckFine_TETrace
    IN JtCheckFine_TETrace!trace
----

_inv ==
    ~(
        TLCGet("level") = Len(_TETrace)
        /\
        res = ("BaseException")
        /\
        pc = ("done")
        /\
        i = (3)
        /\
        fault = ([at |-> 3, cls |-> "BaseException"])
        /\
        scen = ([dims |-> <<[b |-> FALSE, k |-> "named", e |-> <<>>, tp |-> FALSE, nm |-> "a", sz |-> 0]>>, shape |-> <<0>>, pre |-> [single |-> <<>>, variadic |-> <<>>]])
        /\
        items = (<<<<"rank">>, <<"dim", [b |-> FALSE, k |-> "named", e |-> <<>>, tp |-> FALSE, nm |-> "a", sz |-> 0], 0>>>>)
        /\
        live = ([single |-> [a |-> 0], variadic |-> <<>>])
        /\
        snap = ([single |-> <<>>, variadic |-> <<>>])
    )
----

_init ==
    /\ items = _TETrace[1].items
    /\ snap = _TETrace[1].snap
    /\ i = _TETrace[1].i
    /\ pc = _TETrace[1].pc
    /\ fault = _TETrace[1].fault
    /\ res = _TETrace[1].res
    /\ live = _TETrace[1].live
    /\ scen = _TETrace[1].scen
----

_next ==
    /\ \E i,j \in DOMAIN _TETrace:
        /\ \/ /\ j = i + 1
              /\ i = TLCGet("level")
        /\ items  = _TETrace[i].items
        /\ items' = _TETrace[j].items
        /\ snap  = _TETrace[i].snap
        /\ snap' = _TETrace[j].snap
        /\ i  = _TETrace[i].i
        /\ i' = _TETrace[j].i
        /\ pc  = _TETrace[i].pc
        /\ pc' = _TETrace[j].pc
        /\ fault  = _TETrace[i].fault
        /\ fault' = _TETrace[j].fault
        /\ res  = _TETrace[i].res
        /\ res' = _TETrace[j].res
        /\ live  = _TETrace[i].live
        /\ live' = _TETrace[j].live
        /\ scen  = _TETrace[i].scen
        /\ scen' = _TETrace[j].scen

\* Uncomment the ASSUME below to write the states of the error trace
\* to the given file in Json format. Note that you can pass any tuple
\* to `JsonSerialize`. For example, a sub-sequence of _TETrace.
    \* ASSUME
    \*     LET J == INSTANCE Json
    \*         IN J!JsonSerialize("JtCheckFine_TTrace_1791025414.json", _TETrace)

=============================================================================

 Note that you can extract this module `JtCheckFine_TEExpression`
  to a dedicated file to reuse `expression` (the module in the 
  dedicated `JtCheckFine_TEExpression.tla` file takes precedence 
  over the module `JtCheckFine_TEExpression` below).

---- MODULE JtCheckFine_TEExpression ----
EXTENDS Sequences, TLCExt, Toolbox, JtCheckFine, Naturals, TLC

expression == 
    [
        \* To hide variables of the `JtCheckFine` spec from the error trace,
        \* remove the variables below.  The trace will be written in the order
        \* of the fields of this record.
        items |-> items
        ,snap |-> snap
        ,i |-> i
        ,pc |-> pc
        ,fault |-> fault
        ,res |-> res
        ,live |-> live
        ,scen |-> scen
        
        \* Put additional constant-, state-, and action-level expressions here:
        \* ,_stateNumber |-> _TEPosition
        \* ,_itemsUnchanged |-> items = items'
        
        \* Format the `items` variable as Json value.
        \* ,_itemsJson |->
        \*     LET J == INSTANCE Json
        \*     IN J!ToJson(items)
        
        \* Lastly, you may build expressions over arbitrary sets of states by
        \* leveraging the _TETrace operator.  For example, this is how to
        \* count the number of times a spec variable changed up to the current
        \* state in the trace.
        \* ,_itemsModCount |->
        \*     LET F[s \in DOMAIN _TETrace] ==
        \*         IF s = 1 THEN 0
        \*         ELSE IF _TETrace[s].items # _TETrace[s-1].items
        \*             THEN 1 + F[s-1] ELSE F[s-1]
        \*     IN F[_TEPosition - 1]
    ]

=============================================================================



Parsing and semantic processing can take forever if the trace below is long.
 In this case, it is advised to uncomment the module below to deserialize the
 trace from a generated binary file.

\*
\*---- MODULE JtCheckFine_TETrace ----
\*EXTENDS IOUtils, JtCheckFine, TLC
\*
\*trace == IODeserialize("JtCheckFine_TTrace_1791025414.bin", TRUE)
\*
\*=============================================================================
\*

---- MODULE JtCheckFine_TETrace ----
EXTENDS JtCheckFine, TLC

trace == 
    <<
    ([res |-> "?",pc |-> "walk",i |-> 1,fault |-> [at |-> 3, cls |-> "BaseException"],scen |-> [dims |-> <<[b |-> FALSE, k |-> "named", e |-> <<>>, tp |-> FALSE, nm |-> "a", sz |-> 0]>>, shape |-> <<0>>, pre |-> [single |-> <<>>, variadic |-> <<>>]],items |-> <<<<"rank">>, <<"dim", [b |-> FALSE, k |-> "named", e |-> <<>>, tp |-> FALSE, nm |-> "a", sz |-> 0], 0>>>>,live |-> [single |-> <<>>, variadic |-> <<>>],snap |-> [single |-> <<>>, variadic |-> <<>>]]),
    ([res |-> "?",pc |-> "walk",i |-> 2,fault |-> [at |-> 3, cls |-> "BaseException"],scen |-> [dims |-> <<[b |-> FALSE, k |-> "named", e |-> <<>>, tp |-> FALSE, nm |-> "a", sz |-> 0]>>, shape |-> <<0>>, pre |-> [single |-> <<>>, variadic |-> <<>>]],items |-> <<<<"rank">>, <<"dim", [b |-> FALSE, k |-> "named", e |-> <<>>, tp |-> FALSE, nm |-> "a", sz |-> 0], 0>>>>,live |-> [single |-> <<>>, variadic |-> <<>>],snap |-> [single |-> <<>>, variadic |-> <<>>]]),
    ([res |-> "?",pc |-> "walk",i |-> 3,fault |-> [at |-> 3, cls |-> "BaseException"],scen |-> [dims |-> <<[b |-> FALSE, k |-> "named", e |-> <<>>, tp |-> FALSE, nm |-> "a", sz |-> 0]>>, shape |-> <<0>>, pre |-> [single |-> <<>>, variadic |-> <<>>]],items |-> <<<<"rank">>, <<"dim", [b |-> FALSE, k |-> "named", e |-> <<>>, tp |-> FALSE, nm |-> "a", sz |-> 0], 0>>>>,live |-> [single |-> [a |-> 0], variadic |-> <<>>],snap |-> [single |-> <<>>, variadic |-> <<>>]]),
    ([res |-> "?",pc |-> "raised",i |-> 3,fault |-> [at |-> 3, cls |-> "BaseException"],scen |-> [dims |-> <<[b |-> FALSE, k |-> "named", e |-> <<>>, tp |-> FALSE, nm |-> "a", sz |-> 0]>>, shape |-> <<0>>, pre |-> [single |-> <<>>, variadic |-> <<>>]],items |-> <<<<"rank">>, <<"dim", [b |-> FALSE, k |-> "named", e |-> <<>>, tp |-> FALSE, nm |-> "a", sz |-> 0], 0>>>>,live |-> [single |-> [a |-> 0], variadic |-> <<>>],snap |-> [single |-> <<>>, variadic |-> <<>>]]),
    ([res |-> "BaseException",pc |-> "done",i |-> 3,fault |-> [at |-> 3, cls |-> "BaseException"],scen |-> [dims |-> <<[b |-> FALSE, k |-> "named", e |-> <<>>, tp |-> FALSE, nm |-> "a", sz |-> 0]>>, shape |-> <<0>>, pre |-> [single |-> <<>>, variadic |-> <<>>]],items |-> <<<<"rank">>, <<"dim", [b |-> FALSE, k |-> "named", e |-> <<>>, tp |-> FALSE, nm |-> "a", sz |-> 0], 0>>>>,live |-> [single |-> [a |-> 0], variadic |-> <<>>],snap |-> [single |-> <<>>, variadic |-> <<>>]])
    >>
----


=============================================================================

---- CONFIG JtCheckFine_TTrace_1791025414 ----
CONSTANTS
    RollbackMode = "exception_only"
    MaxSize = 2
    Names = { "a" }
    VNames = { "v" }
    MaxLen = 2
    MaxVarRank = 1

INVARIANT
    _inv

CHECK_DEADLOCK
    \* CHECK_DEADLOCK off because of PROPERTY or INVARIANT above.
    FALSE

INIT
    _init

NEXT
    _next

CONSTANT
    _TETrace <- _trace

ALIAS
    _expression
=============================================================================
\* Generated on Sat Oct 03 11:05:10 UTC 2026