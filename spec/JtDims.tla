------------------------------- MODULE JtDims -------------------------------
(***************************************************************************)
(* The dim-string mini-language of jaxtyping array annotations, written     *)
(* from docs/api/array.md ("Shape": symbols, modifiers, notes).            *)
(*                                                                         *)
(* A concrete axis token is abstracted as                                  *)
(*    [mods |-> <<m1, ..., mk>>, base |-> [k |-> kind, nm |-> name,        *)
(*                                         v |-> int, e |-> expr]]          *)
(* mods: the modifier characters in the order they were written;           *)
(*       "=" stands for one documentation prefix `name=`.                   *)
(* base kinds: "ident" (nm), "int" (v), "sym" (e: expression tree),         *)
(*       "empty" (nothing after the modifiers), "dots" ("..."),             *)
(*       "comma" (two axes separated by a comma - the common mistake),      *)
(*       "trailhash" (an axis followed by '#': the pre-0.1.0 spelling).     *)
(* A token whose TEXT ends in '#' is illegal; for a token without a base    *)
(* that is the case exactly when '#' is the modifier written last.          *)
(*                                                                         *)
(* The meaning is a function of the SET of modifiers: order is free.       *)
(***************************************************************************)
EXTENDS Integers, Sequences, FiniteSets, TLC

ModChars == {"#", "*", "_", "?", "="}

\* a parsed dim; all records have the same fields so TLC can compare them
Dim(k, nm, sz, b, tp, e) == [k |-> k, nm |-> nm, sz |-> sz, b |-> b, tp |-> tp, e |-> e]
NoExpr == << >>
Anon           == Dim("anon", "", 0, FALSE, FALSE, NoExpr)
AnonVar        == Dim("avar", "", 0, FALSE, FALSE, NoExpr)
Fixed(k, b)    == Dim("fix", "", k, b, FALSE, NoExpr)
Named(n, b, t) == Dim("named", n, 0, b, t, NoExpr)
NamedVar(n, b, t) == Dim("nvar", n, 0, b, t, NoExpr)
Sym(e, b)      == Dim("sym", "", 0, b, FALSE, e)

IsVariadic(d) == d.k \in {"avar", "nvar"}

Base(k, nm, v, e) == [k |-> k, nm |-> nm, v |-> v, e |-> e]
Tok(mods, base) == [mods |-> mods, base |-> base]

Range(s) == {s[i] : i \in DOMAIN s}
HasDup(s) == \E i, j \in DOMAIN s : i # j /\ s[i] = s[j]

Ok(d)   == [ok |-> TRUE, dim |-> d, why |-> "", unspec |-> FALSE]
Bad(w)  == [ok |-> FALSE, dim |-> Anon, why |-> w, unspec |-> FALSE]
\* the documentation does not give this form a meaning: building may either succeed or
\* raise ValueError, and no acceptance behaviour is demanded
Unspec(d) == [ok |-> TRUE, dim |-> d, why |-> "", unspec |-> TRUE]

ParseTok(t) ==
  LET M == Range(t.mods)
      b == "#" \in M   v == "*" \in M   a == "_" \in M   p == "?" \in M
      k == t.base.k
  IN
  IF HasDup(t.mods) THEN Bad("repeated modifier")
  ELSE IF k = "comma" THEN Bad("comma")
  ELSE IF k = "trailhash" \/ (k = "empty" /\ t.mods # << >> /\ t.mods[Len(t.mods)] = "#") THEN Bad("trailing #")
  ELSE IF k = "dots" THEN (IF M = {} THEN Ok(AnonVar)
                            \* "name=" prefixes are ignored / "..." takes no modifiers: not decided
                            ELSE IF M = {"="} THEN Unspec(AnonVar)
                            ELSE Bad("modifier on ..."))
  ELSE IF k = "int" THEN
        IF v THEN Bad("*fixed") ELSE IF a THEN Bad("_fixed") ELSE IF p THEN Bad("?fixed")
        ELSE Ok(Fixed(t.base.v, b))
  ELSE IF k = "sym" THEN
        IF a THEN Bad("_symbolic") ELSE IF v THEN Bad("*symbolic") ELSE IF p THEN Bad("?symbolic")
        ELSE Ok(Sym(t.base.e, b))
  ELSE \* "ident" or "empty"
        IF a THEN (IF b THEN Bad("#_") ELSE IF v THEN Ok(AnonVar) ELSE Ok(Anon))
        ELSE IF k = "empty" THEN
             Unspec(IF v THEN NamedVar("", b, p) ELSE Named("", b, p))
        ELSE IF v THEN Ok(NamedVar(t.base.nm, b, p)) ELSE Ok(Named(t.base.nm, b, p))

\* a whole specification: every token legal, at most one multi-axis specifier
ParseSpec(toks) ==
  LET ps == [i \in DOMAIN toks |-> ParseTok(toks[i])] IN
  IF \E i \in DOMAIN ps : ~ps[i].ok
    THEN [ok |-> FALSE, dims |-> << >>, unspec |-> FALSE,
          why |-> ps[CHOOSE i \in DOMAIN ps : ~ps[i].ok /\ \A j \in DOMAIN ps : j < i => ps[j].ok].why]
  ELSE IF Cardinality({i \in DOMAIN ps : IsVariadic(ps[i].dim)}) > 1
    THEN [ok |-> FALSE, dims |-> << >>, unspec |-> FALSE, why |-> "two variadics"]
  ELSE [ok |-> TRUE, dims |-> [i \in DOMAIN ps |-> ps[i].dim],
        unspec |-> \E i \in DOMAIN ps : ps[i].unspec, why |-> ""]

\* what building the annotation may do
BuildAllowed(toks) ==
  LET p == ParseSpec(toks) IN
  IF \E i \in DOMAIN toks : ParseTok(toks[i]).unspec THEN {"ok", "ValueError"}
  ELSE IF p.ok THEN {"ok"} ELSE {"ValueError"}

VarIndex(dims) == IF \E i \in DOMAIN dims : IsVariadic(dims[i])
                  THEN CHOOSE i \in DOMAIN dims : IsVariadic(dims[i]) ELSE 0

(***************************************************************************)
(* Theorems checked by TLC over all tokens with at most MaxMods modifiers   *)
(* (see MC_JtDims): totality, order-freedom, neutrality of `name=`.         *)
(***************************************************************************)
Perms(s) == {p \in [DOMAIN s -> DOMAIN s] : \A i, j \in DOMAIN s : i # j => p[i] # p[j]}
Permuted(s, p) == [i \in DOMAIN s |-> s[p[i]]]

\* (a token that consists of modifiers only has no documented meaning, and whether its text ends in '#' depends on the order)
OrderFree(t) == t.base.k # "empty" => \A p \in Perms(t.mods) :
                   ParseTok(Tok(Permuted(t.mods, p), t.base)) = ParseTok(t)
Without(s, x) == SelectSeq(s, LAMBDA y : y # x)
EqNeutral(t) == (~HasDup(t.mods) /\ t.base.k \notin {"dots", "empty"}) => ParseTok(Tok(Without(t.mods, "="), t.base)) = ParseTok(t)
Total(t) == ParseTok(t).ok \in BOOLEAN
=============================================================================
