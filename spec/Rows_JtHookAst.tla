----------------------------- MODULE Rows_JtHookAst -----------------------------
(* translation validation rows: skeleton of the original module, skeleton of the transformed one *)
EXTENDS JtHookAst, Json, IOUtils
Rows == ndJsonDeserialize(IOEnv.VERIF_ROWS)
Exp(r) == Transform([pro |-> r.pro, body |-> r.body])
RowOK(r) == LET e == Exp(r) IN r.after_import_at = e.import_at /\ r.after_body = e.body
VARIABLES l, nbad
vars == <<l, nbad>>
Init == l = 1 /\ nbad = 0
Next == /\ l <= Len(Rows)
        /\ LET r == Rows[l]  ok == RowOK(r) IN
           /\ (IF ok THEN TRUE ELSE PrintT(<<"MISMATCH", r.id, ToJson(Exp(r))>>))
           /\ nbad' = IF ok THEN nbad ELSE nbad + 1
           /\ (IF l < Len(Rows) THEN TRUE ELSE PrintT(<<"DONE", Len(Rows), nbad'>>))
        /\ l' = l + 1
Spec == Init /\ [][Next]_vars
=============================================================================
