-------------------------------- MODULE JtMagic --------------------------------
(***************************************************************************)
(* The IPython line magic %jaxtyping.typechecker <checker>: it removes any   *)
(* JaxtypingTransformer from the shell's list of AST transformers and        *)
(* appends a new one; other transformers stay, in order.  Cells run          *)
(* afterwards are instrumented with the checker chosen LAST.                 *)
(***************************************************************************)
EXTENDS Integers, Sequences, TLC, Json
CONSTANTS MaxSteps
Checkers == {"A", "B"}      \* (no checker at all cannot be expressed through the magic: it only takes a dotted name)
VARIABLES trans, obs, hist, ohist
vars == <<trans, obs, hist, ohist>>
Init == trans = << >> /\ obs = "init" /\ hist = << >> /\ ohist = << >>
Rec(a, o) == hist' = Append(hist, a) /\ obs' = o /\ ohist' = Append(ohist, o)
Can == Len(hist) < MaxSteps
IsJT(t) == t \in Checkers
AddOther == /\ Can /\ trans' = Append(trans, "other") /\ Rec([op |-> "other"], "ok")
Magic(c) == /\ Can /\ trans' = Append(SelectSeq(trans, LAMBDA t : ~IsJT(t)), c) /\ Rec([op |-> "magic", c |-> c], "ok")
\* a cell defining a function: instrumented by the (single) jaxtyping transformer, if any
Current == IF \E i \in DOMAIN trans : IsJT(trans[i]) THEN trans[CHOOSE i \in DOMAIN trans : IsJT(trans[i])] ELSE "plain"
RunCell == /\ Can /\ UNCHANGED trans /\ Rec([op |-> "cell"], Current)
Next == AddOther \/ (\E c \in Checkers : Magic(c)) \/ RunCell
Spec == Init /\ [][Next]_vars
AtMostOne == \A i, j \in DOMAIN trans : (IsJT(trans[i]) /\ IsJT(trans[j])) => i = j
Emit == IF Len(hist) = MaxSteps THEN PrintT(<<"BEH", ToJson([hist |-> hist, obs |-> ohist])>>) ELSE TRUE
=============================================================================
