------------------------------- MODULE JtDtypes -------------------------------
(***************************************************************************)
(* The documented dtype hierarchy (docs/api/array.md "Dtype") over          *)
(* CANONICAL dtype classes  [kind, bits, name]:                             *)
(*   kind \in {"bool","uint","int","float","complex","key","other"}         *)
(*   name = the canonical name, e.g. "float32", "bfloat16", "float8_e4m3fn" *)
(* and the algebra of annotations built from categories: nesting            *)
(* (intersection), unions, scalars.                                         *)
(***************************************************************************)
EXTENDS Integers, Sequences, FiniteSets, TLC

Singletons ==
  [UInt2 |-> "uint2", UInt4 |-> "uint4", UInt8 |-> "uint8", UInt16 |-> "uint16", UInt32 |-> "uint32", UInt64 |-> "uint64",
   Int2 |-> "int2", Int4 |-> "int4", Int8 |-> "int8", Int16 |-> "int16", Int32 |-> "int32", Int64 |-> "int64",
   Float8e4m3b11fnuz |-> "float8_e4m3b11fnuz", Float8e4m3fn |-> "float8_e4m3fn", Float8e4m3fnuz |-> "float8_e4m3fnuz",
   Float8e5m2 |-> "float8_e5m2", Float8e5m2fnuz |-> "float8_e5m2fnuz",
   BFloat16 |-> "bfloat16", Float16 |-> "float16", Float32 |-> "float32", Float64 |-> "float64",
   Complex64 |-> "complex64", Complex128 |-> "complex128"]
Groups == {"Bool", "UInt", "Int", "Integer", "Float", "Complex", "Inexact", "Real", "Num", "Key", "Shaped"}
Categories == DOMAIN Singletons \cup Groups

\* the documented meaning of the group categories, by KIND ("any floating point", ...)
KindsOf(cat) ==
  CASE cat = "Bool" -> {"bool"}
    [] cat = "UInt" -> {"uint"}
    [] cat = "Int" -> {"int"}
    [] cat = "Integer" -> {"uint", "int"}
    [] cat = "Float" -> {"float"}
    [] cat = "Complex" -> {"complex"}
    [] cat = "Inexact" -> {"float", "complex"}
    [] cat = "Real" -> {"float", "uint", "int"}
    [] cat = "Num" -> {"uint", "int", "float", "complex"}
    [] cat = "Key" -> {"key"}
    [] cat = "Shaped" -> {"bool", "uint", "int", "float", "complex", "key", "other"}

Accepts(cat, cls) == IF cat \in Groups THEN cls.kind \in KindsOf(cat)
                     ELSE cls.name = Singletons[cat]

\* lattice identities of the documentation's tree
ASSUME KindsOf("Integer") = KindsOf("UInt") \cup KindsOf("Int")
ASSUME KindsOf("Inexact") = KindsOf("Float") \cup KindsOf("Complex")
ASSUME KindsOf("Num") = KindsOf("Integer") \cup KindsOf("Inexact")
ASSUME KindsOf("Real") = KindsOf("Float") \cup KindsOf("Integer")
ASSUME \A g \in Groups : KindsOf(g) \subseteq KindsOf("Shaped")
ASSUME \A a, b \in DOMAIN Singletons : a # b => Singletons[a] # Singletons[b]

(* ---- a user category: strings (exact match) and patterns (re.match: anchored at the start) ---- *)
IsPrefixOf(p, s) == Len(p) <= Len(s) /\ SubSeq(s, 1, Len(p)) = p
\* name, strings, prefixes are sequences of characters; a pattern is [kind |-> "prefix"|"full", s |-> chars]
UserAccepts(strings, patterns, name) ==
  \/ \E i \in DOMAIN strings : strings[i] = name
  \/ \E i \in DOMAIN patterns : IF patterns[i].kind = "full" THEN patterns[i].s = name ELSE IsPrefixOf(patterns[i].s, name)

(* ---- which canonical names a category contains: needed for nesting (intersection) and scalars ---- *)
KnownNames == {Singletons[c] : c \in DOMAIN Singletons} \cup {"bool", "prng_key"}
KindOfName(n) == CASE n = "bool" -> "bool" [] n = "prng_key" -> "key"
                   [] n \in {"uint2", "uint4", "uint8", "uint16", "uint32", "uint64"} -> "uint"
                   [] n \in {"int2", "int4", "int8", "int16", "int32", "int64"} -> "int"
                   [] n \in {"complex64", "complex128"} -> "complex"
                   [] OTHER -> "float"
NamesOf(cat) == IF cat = "Shaped" THEN KnownNames
                ELSE {n \in KnownNames : Accepts(cat, [kind |-> KindOfName(n), name |-> n])}
\* D2[D1[A, s1], s2]: the acceptable dtypes are the intersection
NestOK(d1, d2) == d1 = "Shaped" \/ d2 = "Shaped" \/ NamesOf(d1) \cap NamesOf(d2) # {}
NestAccepts(d1, d2, cls) == Accepts(d1, cls) /\ Accepts(d2, cls)

(* ---- Python scalars: survive iff every dim is a multi-axis specifier and the category contains them ---- *)
ScalarKind(py) == CASE py = "bool" -> "bool" [] py = "int" -> "int" [] py = "float" -> "float" [] py = "complex" -> "complex"
ScalarSurvives(cat, py, allVariadic) ==
  allVariadic /\ (cat = "Shaped" \/ \E n \in NamesOf(cat) : KindOfName(n) = ScalarKind(py))
\* whether the precision-specific BFloat16 "contains" Python's float is not documented
ScalarAllowed(cat, py, allVariadic) ==
  IF cat = "BFloat16" /\ py = "float" /\ allVariadic THEN {"scalar", "ValueError"}
  ELSE IF ScalarSurvives(cat, py, allVariadic) THEN {"scalar"} ELSE {"ValueError"}
=============================================================================
