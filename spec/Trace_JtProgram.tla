---------------------------- MODULE Trace_JtProgram ----------------------------
(***************************************************************************)
(* code -> spec trace validation for JtProgram.  The log is a batch of       *)
(* programs executed on the implementation:                                  *)
(*   {"ev":"begin","tid":t} {"ev":"act","a":<action>,"obs":<observed>} ...   *)
(*   {"ev":"end","depth":d,"a":x}                                            *)
(* Every "act" line must be a step of the specification (the spec's own      *)
(* action, selected by the logged action record) whose observation equals    *)
(* the logged one; "end" must find the stack empty.  The furthest line       *)
(* reached is kept in a TLC register; acceptance = all lines consumed.       *)
(***************************************************************************)
EXTENDS JtProgram, Json, IOUtils, TLCExt

Log == ndJsonDeserialize(IOEnv.VERIF_ROWS)
VARIABLE l
tvars == <<vars, l>>

TInit == Init /\ l = 1

Begin == /\ l <= Len(Log) /\ Log[l].ev = "begin"
         /\ stack' = << >> /\ frames' = << >> /\ gens' = << >> /\ hist' = << >>
         /\ obs' = [depth |-> 0, a |-> 0, res |-> "init"]
         /\ l' = l + 1

ByRecord(a) ==
  CASE a.op = "call" -> Call(a.kind, a.catches, a.k)
    [] a.op = "badcall" -> BadCall(a.kind, a.catches)
    [] a.op = "enterctx" -> EnterCtx
    [] a.op = "check" -> Check(a.k)
    [] a.op = "argcheck" -> ArgCheck(a.k)
    [] a.op = "return" -> Return
    [] a.op = "raise" -> Raise(a.cls)
    [] a.op = "makegen" -> MakeGen(a.kind, a.k)
    [] a.op = "gennext" -> GenNext
    [] a.op = "genclose" -> GenClose
    [] a.op = "makedc" -> MakeDC(a.k)
    [] a.op = "baddc" -> BadDC(a.catches)

Act1 == /\ l <= Len(Log) /\ Log[l].ev = "act"
        /\ ByRecord(Log[l].a)                 \* the specification's own action
        /\ obs' = Log[l].obs                  \* ... must produce exactly what was observed
        /\ l' = l + 1

\* when the program ends the interpreter lets every open frame return; then nothing may be left
End == /\ l <= Len(Log) /\ Log[l].ev = "end"
       /\ Log[l].depth = 0 /\ Log[l].a = 0
       /\ UNCHANGED vars /\ l' = l + 1

TNext == Begin \/ Act1 \/ End
TSpec == TInit /\ [][TNext]_tvars
Progress == TLCSet(1, l)
Accepted == IF TLCGet(1) = Len(Log) + 1 THEN PrintT(<<"ACCEPTED", Len(Log)>>)
            ELSE PrintT(<<"REJECTED", TLCGet(1), ToJson(Log[TLCGet(1)])>>)
=============================================================================
