------------------------------- MODULE JtHookAst -------------------------------
(***************************************************************************)
(* What the source transformation of the import hook / IPython magic may    *)
(* change.  A module is abstracted to a SKELETON:                           *)
(*   pro  : the kinds of its top-level statements, in order:                *)
(*          "future" (from __future__ import ...), "cexpr" (an expression   *)
(*          statement that is a constant: the docstring, or any other       *)
(*          literal), "other"                                               *)
(*   body : the forest of its def / async def / class nodes at any nesting  *)
(*          depth (blocks such as if / try / with / match are transparent): *)
(*          [k |-> "def"|"adef"|"class", decs |-> <<"U", ...>>, c |-> <<..>>] *)
(*          decs lists the decorators, outermost first; "U" = the user's,    *)
(*          "J" = jaxtyped(typechecker=...)                                  *)
(* Transform is the ONLY permitted difference between a module and its       *)
(* hooked version.                                                           *)
(***************************************************************************)
EXTENDS Integers, Sequences, FiniteSets, TLC

\* index (1-based) of the statement before which `import jaxtyping` is inserted; 0 = none is inserted
ImportIndex(pro) ==
  IF \E i \in DOMAIN pro : pro[i] = "other"
  THEN CHOOSE i \in DOMAIN pro : pro[i] = "other" /\ \A j \in DOMAIN pro : j < i => pro[j] # "other"
  ELSE 0

RECURSIVE TNode(_), TForest(_)
TForest(f) == [i \in DOMAIN f |-> TNode(f[i])]
TNode(n) ==
  [k |-> n.k,
   decs |-> CASE n.k = "def" -> Append(n.decs, "J")             \* innermost
              [] n.k = "class" -> <<"J">> \o n.decs             \* outermost
              [] OTHER -> n.decs,                               \* async def: untouched
   c |-> TForest(n.c)]

Transform(skel) == [pro |-> skel.pro, import_at |-> ImportIndex(skel.pro), body |-> TForest(skel.body)]

\* theorems (checked on the bounded universe of MC_JtHookAst)
RECURSIVE CountJ(_), CountNodes(_, _)
CountNodes(f, kinds) == IF f = << >> THEN 0
                        ELSE (IF Head(f).k \in kinds THEN 1 ELSE 0) + CountNodes(Head(f).c, kinds) + CountNodes(Tail(f), kinds)
CountJ(f) == IF f = << >> THEN 0
             ELSE Cardinality({i \in DOMAIN Head(f).decs : Head(f).decs[i] = "J"}) + CountJ(Head(f).c) + CountJ(Tail(f))
\* exactly one decorator per def and per class, none elsewhere
OnePerDefAndClass(skel) == CountJ(Transform(skel).body) = CountNodes(skel.body, {"def", "class"})
\* the import never precedes a __future__ import or the docstring
ImportAfterPrologue(skel) == LET i == ImportIndex(skel.pro) IN
   i # 0 => \A j \in DOMAIN skel.pro : skel.pro[j] = "future" => (j < i \/ \E k \in 1..j : skel.pro[k] = "other")
=============================================================================
