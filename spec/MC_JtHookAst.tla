------------------------------ MODULE MC_JtHookAst ------------------------------
(* bounded universe of skeletons: theorems + emission for rendering to real source *)
EXTENDS JtHookAst, Json, IOUtils
SE == INSTANCE SequencesExt
CONSTANTS MaxPro, MaxNodes
SeqsUpTo(S, n) == UNION {[1..m -> S] : m \in 0..n}
Pros == SeqsUpTo({"future", "cexpr", "other"}, MaxPro)
Decs == {<< >>, <<"U">>, <<"U", "U">>}
Kinds == {"def", "adef", "class"}
Leaf(k, d) == [k |-> k, decs |-> d, c |-> << >>]
Leaves == {Leaf(k, d) : k \in Kinds, d \in Decs}
\* forests of depth <= 2 with at most MaxNodes nodes
One == {[k |-> k, decs |-> d, c |-> cs] : k \in Kinds, d \in Decs, cs \in SeqsUpTo(Leaves, 1)}
Forests == {f \in SeqsUpTo(One, 2) : CountNodes(f, Kinds) <= MaxNodes}
VARIABLES skel
Init == skel \in [pro : Pros, body : Forests]
Next == UNCHANGED skel
Spec == Init /\ [][Next]_skel
Theorems == OnePerDefAndClass(skel) /\ ImportAfterPrologue(skel)
ASSUME IOEnv.VERIF_OUT = "" \/ JsonSerialize(IOEnv.VERIF_OUT, [pros |-> SE!SetToSeq(Pros), forests |-> SE!SetToSeq(Forests)])
=============================================================================
