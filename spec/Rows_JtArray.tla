----------------------------- MODULE Rows_JtArray -----------------------------
(***************************************************************************)
(* code -> spec: every row is one array check that was executed on the      *)
(* implementation (pre-state, annotation tokens, object summary, observed    *)
(* verdict, observed post-state).  TLC re-decides each row with the          *)
(* specification's own operators; a row the specification does not allow is  *)
(* reported (MISMATCH) together with what the specification expects, and     *)
(* validation continues with the next row.                                   *)
(* Rows come from: the exhaustive product of the factors emitted by          *)
(* Emit_JtArray; randomly generated wide-scope checks; the checks performed  *)
(* by the repository's own test-suite under instrumentation.                 *)
(***************************************************************************)
EXTENDS JtArray, Json, IOUtils

Rows == ndJsonDeserialize(IOEnv.VERIF_ROWS)

Expected(r) ==
  LET p == ParseSpec(r.toks) IN
  IF ~p.ok THEN [parse |-> "illegal", why |-> p.why]
  ELSE LET c == ArrayCheck(p.dims, r.obj, r.pre, r.args, r.lab, r.fl) IN
       [parse |-> "ok", r |-> c.r, allowed |-> Allowed(p.dims, r.obj, r.pre, r.args, r.lab, r.fl),
        post |-> c.memo]

RowOK(r) ==
  LET p == ParseSpec(r.toks) IN
  /\ p.ok
  /\ LET c == ArrayCheck(p.dims, r.obj, r.pre, r.args, r.lab, r.fl) IN
     /\ r.res \in AllowedFrom(c, p.dims, r.obj, r.pre, r.args, r.lab, r.fl)
     /\ IF r.res = "T" /\ c.r = "T" THEN r.post = c.memo ELSE r.post = r.pre

VARIABLES l, nbad
vars == <<l, nbad>>
Init == l = 1 /\ nbad = 0
Next == /\ l <= Len(Rows)
        /\ LET r == Rows[l]  ok == RowOK(r) IN
           /\ (IF ok THEN TRUE ELSE PrintT(<<"MISMATCH", r.id, ToJson(Expected(r))>>))
           /\ nbad' = IF ok THEN nbad ELSE nbad + 1
           /\ (IF l < Len(Rows) THEN TRUE ELSE PrintT(<<"DONE", Len(Rows), nbad'>>))
        /\ l' = l + 1
Spec == Init /\ [][Next]_vars
=============================================================================
