------------------------------- MODULE JtSwitch -------------------------------
(***************************************************************************)
(* C19: the global disable switch and typing.no_type_check.                 *)
(* The environment updates the switch with any spelling at any time,        *)
(* decorates a function (plainly, or with no_type_check above / below the   *)
(* decorator) at any time, and calls it well- or ill-typed.                 *)
(* The function may also come from a module imported under the import hook   *)
(* ("hooked": decorated by the hook at import time, whatever the switch says *)
(* at that moment).  Its body performs a manual isinstance check of an array *)
(* of size 5 against the axis "a"; the call is made either at top level or   *)
(* from inside a context block in which a = 3 is bound (outer).  Plain code  *)
(* sees the CALLER's bindings (verdict F under a = 3, T at top level); a     *)
(* checked call has its own context (a = 2 from the argument: F).            *)
(* DisabledIsPlain  : with checking off every call behaves like plain code  *)
(* ReenableRestores : switching back on restores checking w/o redecoration  *)
(***************************************************************************)
EXTENDS JtCallShape, Json

CONSTANTS MaxSteps,
          Reduced     \* TRUE: only on / off / decorate / call-well / call-ill (longer exhaustive sequences)
Spellings == {"bool:True", "bool:False", "1", "0", "true", "FALSE", "tRuE", "yes", "2", "", "None", "on"}
FnKinds == {"plain", "ntc_above", "ntc_below", "hooked"}
\* the item name is case-insensitive ("jaxtyping_disable", "JAXTYPING_DISABLE", ...); an unknown item is a ValueError
ItemNames == {"jaxtyping_disable", "JAXTYPING_DISABLE", "Jaxtyping_Disable", "jaxtyping_nosuchitem"}

VARIABLES dis, fn, obs, hist, ohist
vars == <<dis, fn, obs, hist, ohist>>
Init == dis = FALSE /\ fn = "none" /\ obs = "init" /\ hist = << >> /\ ohist = << >>
Rec(a, o) == hist' = Append(hist, a) /\ obs' = o /\ ohist' = Append(ohist, o)
Can == Len(hist) < MaxSteps

Update(item, v) ==
             /\ Can /\ (Reduced => (item = "jaxtyping_disable" /\ v \in {"bool:True", "bool:False"}))
             /\ LET p == IF item = "jaxtyping_nosuchitem" THEN "ValueError" ELSE ParseSwitch(v) IN
                /\ dis' = IF p = "on" THEN TRUE ELSE IF p = "off" THEN FALSE ELSE dis
                /\ Rec([op |-> "update", item |-> item, v |-> v], IF p = "ValueError" THEN "ValueError" ELSE "ok")
             /\ UNCHANGED fn
Decorate(k) == /\ Can /\ (Reduced => k \in {"plain", "hooked"}) /\ fn' = k /\ UNCHANGED dis /\ Rec([op |-> "decorate", kind |-> k], "ok")
Unchecked == dis \/ fn \in {"ntc_above", "ntc_below"}
\* result of the call : verdict of the body's manual check
CallRes(typed, outer) == IF Unchecked THEN (IF outer THEN "ok:F" ELSE "ok:T")      \* exactly the undecorated function
                         ELSE IF typed = "ill" THEN "TCE" ELSE "ok:F"
Call(typed, outer) == /\ Can /\ fn # "none" /\ (Reduced => ~outer) /\ UNCHANGED <<dis, fn>>
                      /\ Rec([op |-> "call", typed |-> typed, outer |-> outer], CallRes(typed, outer))
\* the canonical item name with every spelling of the value; the other item names with two values
Next == (\E v \in Spellings : Update("jaxtyping_disable", v))
        \/ (\E item \in ItemNames \ {"jaxtyping_disable"}, v \in {"bool:True", "0"} : Update(item, v)) \/ (\E k \in FnKinds : Decorate(k)) \/ (\E t \in {"well", "ill"}, o \in BOOLEAN : Call(t, o))
Spec == Init /\ [][Next]_vars

DisabledIsPlain == (obs = "TCE") => ~dis
View == <<dis, fn, obs>>
Emit == IF Len(hist) = MaxSteps THEN PrintT(<<"BEH", ToJson([hist |-> hist, obs |-> ohist])>>) ELSE TRUE
=============================================================================
