------------------------------ MODULE MC_JtArray ------------------------------
(***************************************************************************)
(* Bounded universe and TLC-checked theorems for JtArray.                   *)
(*                                                                         *)
(* Depth-1 "transition table": Init ranges over EVERY memo state of the     *)
(* universe (not only reachable ones - so each theorem is an inductive      *)
(* step), Next performs one array check and records it in `last`.           *)
(* The same universe (Memos x Pairs) is emitted as JSON factors by          *)
(* Emit_JtArray and replayed against the implementation row by row.         *)
(***************************************************************************)
EXTENDS JtArray

CONSTANTS MaxSize,      \* sizes 0..MaxSize
          Names,        \* axis names
          VNames,       \* names of *variadics
          MaxLen,       \* tokens per annotation (including the variadic one)
          MaxVarRank,   \* rank bound of what a *name may stand for
          SymIds,       \* which symbolic expressions of the catalogue are used
          WithQ,        \* include '?' tokens (used without a leaf position: AnnotationError)
          WithTheorems  \* evaluate GreedyIsSat / SolsStep (expensive)

Sizes == 0..MaxSize
Args == [n |-> 2]

SymCatalogue == [ap1  |-> <<"+", <<"n", "a">>, <<"i", 1>>>>,
                 am1  |-> <<"-", <<"n", "a">>, <<"i", 1>>>>,
                 a2   |-> <<"*", <<"i", 2>>, <<"n", "a">>>>,
                 apb  |-> <<"+", <<"n", "a">>, <<"n", "b">>>>,
                 amb  |-> <<"*", <<"n", "a">>, <<"n", "b">>>>,
                 argn |-> <<"a", "n">>,
                 argna |-> <<"+", <<"a", "n">>, <<"n", "a">>>>,
                 argm |-> <<"a", "nosucharg">>,
                 argv |-> <<"a", "v">>,
                 argvpa |-> <<"+", <<"a", "v">>, <<"n", "a">>>>]

BIdent(n) == Base("ident", n, 0, NoExpr)
BInt(k)   == Base("int", "", k, NoExpr)
BSym(id)  == Base("sym", id, 0, SymCatalogue[id])
BEmpty    == Base("empty", "", 0, NoExpr)
BDots     == Base("dots", "", 0, NoExpr)

Hash(b) == IF b THEN <<"#">> ELSE << >>
SingleToks ==
       {Tok(<<"_">>, BEmpty)}
  \cup {Tok(Hash(b), BInt(k)) : k \in Sizes, b \in BOOLEAN}
  \cup {Tok(Hash(b), BIdent(n)) : n \in Names, b \in BOOLEAN}
  \cup {Tok(Hash(b), BSym(id)) : id \in SymIds, b \in BOOLEAN}
  \cup (IF WithQ THEN {Tok(Hash(b) \o <<"?">>, BIdent(n)) : n \in Names, b \in BOOLEAN} ELSE {})
VarToks == {Tok(<< >>, BDots)}
  \cup {Tok(Hash(b) \o <<"*">>, BIdent(v)) : v \in VNames, b \in BOOLEAN}
  \cup (IF WithQ THEN {Tok(<<"*", "?">>, BIdent(v)) : v \in VNames} ELSE {})
IsVarTok(t) == t \in VarToks

SeqsUpTo(S, n) == UNION {[1..m -> S] : m \in 0..n}
Anns == {a \in SeqsUpTo(SingleToks \cup VarToks, MaxLen) :
            Cardinality({i \in DOMAIN a : IsVarTok(a[i])}) <= 1}
HasVar(a) == \E i \in DOMAIN a : IsVarTok(a[i])
Shapes(n) == SeqsUpTo(Sizes, n)
RankRange(a) == IF HasVar(a) THEN (Max(0, Len(a) - 2))..(Len(a) - 1 + MaxVarRank)
                ELSE (Max(0, Len(a) - 1))..(Len(a) + 1)
CandShapes(a) == UNION {[1..m -> Sizes] : m \in RankRange(a)}

Obj(inst, dtin, shape) == [inst |-> inst, dtin |-> dtin, shape |-> shape]
\* the (annotation, object) pairs of the table; the type/dtype outcomes other than
\* (instance, dtype in category) are explored for the scalar-ish shapes only
Pairs == UNION {{<<a, Obj(TRUE, TRUE, s)>> : s \in CandShapes(a)} : a \in Anns} \* full shape grid
   \cup  UNION {UNION {{<<a, Obj(FALSE, TRUE, s)>>, <<a, Obj(TRUE, FALSE, s)>>} : s \in CandShapes(a)} :
                  a \in {x \in Anns : Len(x) <= 1}}

PartialFns(D, R) == UNION {[S -> R] : S \in SUBSET D}
VarVals == {[b |-> bb, s |-> sh] : bb \in BOOLEAN, sh \in Shapes(MaxVarRank)}
Memos == {Memo(s, v) : s \in PartialFns(Names, Sizes), v \in PartialFns(VNames, VarVals)}

Dims(a) == ParseSpec(a).dims

VARIABLES memo, last
vars == <<memo, last>>
NoOp == [k |-> "init"]

Init == memo \in Memos /\ last = NoOp

Step(m, a, o, fl) == ArrayCheck(Dims(a), o, m, Args, NoLabel, fl)

Check(a, o, fl) ==
  LET c == Step(memo, a, o, fl) IN
  /\ last = NoOp
  /\ memo' = c.memo
  /\ last' = [k |-> "arr", toks |-> a, obj |-> o, fl |-> fl, pre |-> memo, r |-> c.r,
              allowed |-> AllowedFrom(c, Dims(a), o, memo, Args, NoLabel, fl)]

Next == last = NoOp /\ \E p \in Pairs : Check(p[1], p[2], FALSE)
Spec == Init /\ [][Next]_vars

(* ------------------------------ theorems ------------------------------ *)
Done == last # NoOp
D == Dims(last.toks)

\* every annotation of the universe is a legal dim string
AllLegal == \A a \in Anns : ParseSpec(a).ok

\* a check that does not pass leaves the context exactly as it was
Rollback == Done /\ last.r # "T" => memo = last.pre

\* a passing check never changes an existing axis binding and only adds keys the
\* annotation mentions
Mentions(dims) == {dims[i].nm : i \in {j \in DOMAIN dims : dims[j].k \in {"named", "nvar"}}}
Frame == Done =>
   /\ \A k \in DOMAIN last.pre.single : k \in DOMAIN memo.single /\ memo.single[k] = last.pre.single[k]
   /\ \A k \in DOMAIN memo.single \ DOMAIN last.pre.single : k \in Mentions(D)
   /\ \A k \in DOMAIN last.pre.variadic : k \in DOMAIN memo.variadic
   /\ \A k \in DOMAIN last.pre.variadic \ Mentions(D) : memo.variadic[k] = last.pre.variadic[k]
   /\ \A k \in DOMAIN memo.variadic \ DOMAIN last.pre.variadic : k \in Mentions(D)

\* repeating a check that passed passes again and binds nothing
Idempotent == Done /\ last.r = "T" =>
   Step(memo, last.toks, last.obj, last.fl) = [r |-> "T", memo |-> memo]

InAllowed == Done => last.r \in last.allowed

(* ---- greedy walk == satisfiability (no symbolic / '?' tokens) ----        *)
Plain(a) == \A i \in DOMAIN a : a[i].base.k \notin {"sym"} /\ "?" \notin Range(a[i].mods)
SolSpace == [Names -> Sizes] \X [VNames -> Shapes(MaxVarRank)]
Sols(m) == {p \in SolSpace : Compatible(m, p[1], p[2])}
GreedyIsSat ==
  (WithTheorems /\ Done /\ ~last.fl /\ last.obj.inst /\ last.obj.dtin /\ Plain(last.toks)) =>
     LET S1 == {p \in Sols(last.pre) : AnnOK(D, last.obj.shape, p[1], p[2])} IN
     /\ (last.r = "T") <=> (S1 # {})
     /\ (last.r = "T") => Sols(memo) = S1

\* how many rows the table has (certifies the harness's enumeration)
RowCount == Cardinality(Memos) * Cardinality(Pairs)
=============================================================================
