------------------------------- MODULE JtArray -------------------------------
(***************************************************************************)
(* One `isinstance(x, Dtype[ArrayType, dims])` inside one checking context. *)
(*                                                                         *)
(* Context (memo):                                                          *)
(*   single   : axis name  -> size               (DOMAIN = names bound)     *)
(*   variadic : *name      -> [b |-> was-broadcastable, s |-> shape]        *)
(*   args     : argument name -> integer value   (for `{arg}` in symbolic)  *)
(* The operational part (CheckDims / CheckShape / ArrayCheck) is shaped     *)
(* like the implementation: rank test, prefix, suffix, variadic, tentative  *)
(* bindings that are committed only when the whole check passes.            *)
(* The declarative part (Sols / AnnOK) is what the user relies on; the      *)
(* theorems that connect the two are checked by TLC in MC_JtArray.          *)
(***************************************************************************)
EXTENDS JtDims

NoVal == -1000000       \* "cannot be evaluated: a name is not bound"
Frac == -999999         \* "a value that is not an integer": equals no size (true division is only used outermost)
NoLabel == ""           \* no '?'-leaf position is current

Bind(f, k, v) == [x \in DOMAIN f \cup {k} |-> IF x = k THEN v ELSE f[x]]
EmptyFn == [x \in {} |-> 0]
Memo(s, v) == [single |-> s, variadic |-> v]
EmptyMemo == Memo(EmptyFn, EmptyFn)

(* ---- symbolic expressions: trees <<op, x, y>>, <<"i", k>>, <<"n", axis>>, <<"a", arg>> ---- *)
(* op \in + - * // / min max                                                                   *)
Min(a, b) == IF a <= b THEN a ELSE b
Max(a, b) == IF a >= b THEN a ELSE b
RECURSIVE Eval(_, _, _)
Eval(e, single, args) ==
  CASE e[1] = "i" -> e[2]
    [] e[1] = "n" -> IF e[2] \in DOMAIN single THEN single[e[2]] ELSE NoVal
    [] e[1] = "a" -> IF e[2] \in DOMAIN args THEN args[e[2]] ELSE NoVal
    [] OTHER ->
       LET x == Eval(e[2], single, args)
           y == Eval(e[3], single, args)
       IN IF x = NoVal \/ y = NoVal THEN NoVal
          ELSE CASE e[1] = "+" -> x + y
                 [] e[1] = "-" -> x - y
                 [] e[1] = "*" -> x * y
                 [] e[1] = "//" -> x \div y
                 [] e[1] = "/" -> IF x % y = 0 THEN x \div y ELSE Frac        \* true division (divisor a positive literal)
                 [] e[1] = "min" -> Min(x, y)
                 [] e[1] = "max" -> Max(x, y)

(* ---- the walk over non-variadic dims, left to right ----                 *)
(* result: [r |-> "T" | "F" | "E", m |-> single']  (E = AnnotationError)     *)
Key(d, lab) == IF d.tp THEN lab \o d.nm ELSE d.nm

RECURSIVE CheckDims(_, _, _, _, _)
CheckDims(dims, shape, single, args, lab) ==
  IF dims = << >> THEN [r |-> "T", m |-> single]
  ELSE LET d == Head(dims)   n == Head(shape)
           rest(s) == CheckDims(Tail(dims), Tail(shape), s, args, lab)
       IN
       IF d.k = "anon" THEN rest(single)
       ELSE IF d.b /\ n = 1 THEN rest(single)              \* '#': size one always fits, binds nothing
       ELSE IF d.k = "fix" THEN (IF d.sz = n THEN rest(single) ELSE [r |-> "F", m |-> single])
       ELSE IF d.k = "sym" THEN
              LET v == Eval(d.e, single, args) IN
              IF v = NoVal THEN [r |-> "E", m |-> single]
              ELSE IF v = n THEN rest(single) ELSE [r |-> "F", m |-> single]
       ELSE \* named
              IF d.tp /\ lab = NoLabel THEN [r |-> "E", m |-> single]
              ELSE LET k == Key(d, lab) IN
                   IF k \notin DOMAIN single THEN rest(Bind(single, k, n))
                   ELSE IF single[k] = n THEN rest(single)
                   ELSE [r |-> "F", m |-> single]

(* ---- NumPy broadcasting of two shapes, right-aligned ---- *)
Bcast(s1, s2) ==
  LET n == Max(Len(s1), Len(s2))
      g(s, i) == LET j == i - (n - Len(s)) IN IF j >= 1 THEN s[j] ELSE 1
      okAt(i) == g(s1, i) = g(s2, i) \/ g(s1, i) = 1 \/ g(s2, i) = 1
  IN [ok |-> \A i \in 1..n : okAt(i),
      s  |-> [i \in 1..n |-> IF g(s1, i) = 1 THEN g(s2, i) ELSE g(s1, i)]]

Sub(s, a, b) == IF a > b THEN << >> ELSE SubSeq(s, a, b)

(* ---- the shape check: [r, memo] with the *tentative* memo ---- *)
CheckShape(dims, shape, memo, args, lab) ==
  LET iv == VarIndex(dims)
      res(r, s, v) == [r |-> r, memo |-> Memo(s, v)]
      sg == memo.single   vr == memo.variadic
  IN
  IF iv = 0 THEN
     IF Len(shape) # Len(dims) THEN res("F", sg, vr)
     ELSE LET c == CheckDims(dims, shape, sg, args, lab) IN res(c.r, c.m, vr)
  ELSE
     IF Len(shape) < Len(dims) - 1 THEN res("F", sg, vr)
     ELSE LET nsuf == Len(dims) - iv
              pre  == CheckDims(Sub(dims, 1, iv - 1), Sub(shape, 1, iv - 1), sg, args, lab)
          IN IF pre.r # "T" THEN res(pre.r, pre.m, vr)
             ELSE LET suf == CheckDims(Sub(dims, iv + 1, Len(dims)),
                                       Sub(shape, Len(shape) - nsuf + 1, Len(shape)), pre.m, args, lab)
                  IN IF suf.r # "T" THEN res(suf.r, suf.m, vr)
                     ELSE LET d == dims[iv]
                              mid == Sub(shape, iv, Len(shape) - nsuf)
                          IN IF d.k = "avar" THEN res("T", suf.m, vr)
                             ELSE IF d.tp /\ lab = NoLabel THEN res("E", suf.m, vr)
                             ELSE LET k == Key(d, lab) IN
                               IF k \notin DOMAIN vr THEN res("T", suf.m, Bind(vr, k, [b |-> d.b, s |-> mid]))
                               ELSE LET prev == vr[k]   bc == Bcast(mid, prev.s) IN
                                 IF prev.b THEN
                                    IF ~bc.ok THEN res("F", suf.m, vr)
                                    ELSE IF ~d.b /\ bc.s # mid THEN res("F", suf.m, vr)
                                    ELSE res("T", suf.m, Bind(vr, k, [b |-> d.b, s |-> bc.s]))
                                 ELSE IF d.b THEN
                                    IF ~bc.ok \/ bc.s # prev.s THEN res("F", suf.m, vr)
                                    ELSE res("T", suf.m, vr)
                                 ELSE IF mid # prev.s THEN res("F", suf.m, vr)
                                    ELSE res("T", suf.m, vr)

(* ---- the whole isinstance ----                                            *)
(* obj: [inst |-> is an instance of the array type (for Any: has shape and   *)
(*       dtype), dtin |-> dtype belongs to the category, shape |-> <<..>>]   *)
(* flatten: the "only look at the array type" mode of an enclosing PyTree.   *)
(* Commit on "T", roll back otherwise.                                       *)
ArrayCheck(dims, obj, memo, args, lab, flatten) ==
  IF ~obj.inst THEN [r |-> "F", memo |-> memo]
  ELSE IF flatten THEN [r |-> "T", memo |-> memo]
  ELSE IF ~obj.dtin THEN [r |-> "F", memo |-> memo]
  ELSE LET c == CheckShape(dims, obj.shape, memo, args, lab) IN
       IF c.r = "T" THEN c ELSE [r |-> c.r, memo |-> memo]

(* ---- the set of verdicts the property statement permits ----              *)
(* The statement does not fix the order in which a mismatch and an           *)
(* unresolvable symbolic axis (or a '?' axis outside a structured PyTree)    *)
(* are discovered: when examining ALL axes (Kinds) finds both kinds of       *)
(* failure, a failing check may answer "F" or raise; and where the walk      *)
(* never has to evaluate an offending axis (e.g. '#' with size 1) a passing  *)
(* check may also raise.  Nothing else is allowed.                           *)
SymUnresolvedInitially(dims, memo, args) ==
  \E i \in DOMAIN dims : dims[i].k = "sym" /\ Eval(dims[i].e, memo.single, args) = NoVal
QMisuse(dims, lab) == lab = NoLabel /\ \E i \in DOMAIN dims : dims[i].tp /\ dims[i].k \in {"named", "nvar"}

\* every kind of failure present in the annotation when ALL non-variadic axes are examined left to right
\* (binding names on the way, continuing past failures, and evaluating also where '#' with size 1 would
\* let the walk skip the axis): [ks |-> subset of {"F","E"}, m |-> bindings]
RECURSIVE Kinds(_, _, _, _, _)
Kinds(dims, shape, single, args, lab) ==
  IF dims = << >> THEN [ks |-> {}, m |-> single]
  ELSE LET d == Head(dims)   n == Head(shape)
           rest(sg, k) == LET r == Kinds(Tail(dims), Tail(shape), sg, args, lab) IN [ks |-> k \cup r.ks, m |-> r.m]
           one == d.b /\ n = 1
       IN CASE d.k = "anon" -> rest(single, {})
            [] d.k = "fix" -> rest(single, IF d.sz = n \/ one THEN {} ELSE {"F"})
            [] d.k = "sym" -> LET v == Eval(d.e, single, args) IN
                              IF v = NoVal THEN rest(single, {"E"}) ELSE rest(single, IF v = n \/ one THEN {} ELSE {"F"})
            [] OTHER -> IF d.tp /\ lab = NoLabel THEN rest(single, {"E"})
                        ELSE LET k == Key(d, lab) IN
                             IF k \notin DOMAIN single THEN (IF one THEN rest(single, {}) ELSE rest(Bind(single, k, n), {}))
                             ELSE rest(single, IF single[k] = n \/ one THEN {} ELSE {"F"})

AllKinds(dims, shape, memo, args, lab) ==
  LET iv == VarIndex(dims) IN
  IF iv = 0 THEN Kinds(dims, shape, memo.single, args, lab).ks
  ELSE LET nsuf == Len(dims) - iv
           nonvar == Sub(dims, 1, iv - 1) \o Sub(dims, iv + 1, Len(dims))
           elems == Sub(shape, 1, iv - 1) \o Sub(shape, Len(shape) - nsuf + 1, Len(shape))
           w == Kinds(nonvar, elems, memo.single, args, lab)
           vr == CheckShape(<<dims[iv]>>, Sub(shape, iv, Len(shape) - nsuf), Memo(w.m, memo.variadic), args, lab).r
       IN w.ks \cup (IF vr = "T" THEN {} ELSE {vr})

RankOK(dims, shape) == IF VarIndex(dims) = 0 THEN Len(shape) = Len(dims) ELSE Len(shape) >= Len(dims) - 1

\* c = ArrayCheck(...) of the same arguments
AllowedFrom(c, dims, obj, memo, args, lab, flatten) ==
  IF ~(obj.inst /\ ~flatten /\ obj.dtin) THEN {c.r}
  ELSE IF ~RankOK(dims, obj.shape)
       THEN (IF SymUnresolvedInitially(dims, memo, args) \/ QMisuse(dims, lab) THEN {"F", "E"} ELSE {c.r})
  ELSE LET ks == AllKinds(dims, obj.shape, memo, args, lab) IN
       IF c.r = "T" THEN (IF "E" \in ks THEN {"T", "E"} ELSE {"T"})       \* an axis the walk never had to evaluate
       ELSE IF {"F", "E"} \subseteq ks THEN {"F", "E"} ELSE {c.r}
Allowed(dims, obj, memo, args, lab, flatten) ==
  AllowedFrom(ArrayCheck(dims, obj, memo, args, lab, flatten), dims, obj, memo, args, lab, flatten)

(***************************************************************************)
(* Declarative semantics.  A solution is a total assignment                 *)
(*   sg : Names -> Sizes,  tau : VNames -> Shapes.                          *)
(* Sols(memo) = the solutions compatible with what the context has bound.   *)
(***************************************************************************)
BTo(s, target) == LET bc == Bcast(s, target) IN bc.ok /\ bc.s = target
DimOK(d, n, sg) == CASE d.k = "anon" -> TRUE
                     [] d.k = "fix" -> n = d.sz \/ (d.b /\ n = 1)
                     [] d.k = "named" -> n = sg[d.nm] \/ (d.b /\ n = 1)
AnnOK(dims, shape, sg, tau) ==
  LET iv == VarIndex(dims) IN
  IF iv = 0 THEN Len(shape) = Len(dims) /\ \A i \in DOMAIN dims : DimOK(dims[i], shape[i], sg)
  ELSE /\ Len(shape) >= Len(dims) - 1
       /\ LET nsuf == Len(dims) - iv
              mid == Sub(shape, iv, Len(shape) - nsuf)
              d == dims[iv]
          IN /\ \A i \in 1..(iv - 1) : DimOK(dims[i], shape[i], sg)
             /\ \A j \in 1..nsuf : DimOK(dims[iv + j], shape[Len(shape) - nsuf + j], sg)
             /\ (d.k = "nvar" => IF d.b THEN BTo(mid, tau[d.nm]) ELSE mid = tau[d.nm])
Compatible(memo, sg, tau) ==
  /\ \A n \in DOMAIN memo.single : memo.single[n] = sg[n]
  /\ \A v \in DOMAIN memo.variadic :
        IF memo.variadic[v].b THEN BTo(memo.variadic[v].s, tau[v]) ELSE memo.variadic[v].s = tau[v]
=============================================================================
