----------------------------- MODULE JtCheckFine -----------------------------
(***************************************************************************)
(* The array check at the grain at which it can be interrupted: the walk    *)
(* mutates the LIVE context item by item (rank test, prefix axes, suffix    *)
(* axes, the *variadic), and ends in Commit or Rollback.  Between any two   *)
(* items user code may raise (array attributes, __format__ of an {arg} in a *)
(* symbolic axis): an exception of class Exception or BaseException.        *)
(*                                                                         *)
(* RollbackMode = "always"          the behaviour C04 demands               *)
(*              = "exception_only"  only `except Exception` (defect D2)     *)
(*              = "never"           no rollback at all                      *)
(* TLC proves NothingBoundOnFailure for "always" and must refute it for the *)
(* other two (vacuity / documentation of the defect).                       *)
(***************************************************************************)
EXTENDS JtArray

CONSTANTS RollbackMode, MaxSize, Names, VNames, MaxLen, MaxVarRank

Sizes == 0..MaxSize
SeqsUpTo(S, n) == UNION {[1..m -> S] : m \in 0..n}
PartialFns(DD, R) == UNION {[S -> R] : S \in SUBSET DD}
VarVals == {[b |-> bb, s |-> sh] : bb \in BOOLEAN, sh \in SeqsUpTo(Sizes, MaxVarRank)}
Memos == {Memo(s, v) : s \in PartialFns(Names, Sizes), v \in PartialFns(VNames, VarVals)}
SingleDims == {Anon} \cup {Fixed(k, b) : k \in Sizes, b \in BOOLEAN}
                     \cup {Named(n, b, FALSE) : n \in Names, b \in BOOLEAN}
VarDims == {AnonVar} \cup {NamedVar(v, b, FALSE) : v \in VNames, b \in BOOLEAN}
AnnsD == {a \in SeqsUpTo(SingleDims \cup VarDims, MaxLen) :
            Cardinality({i \in DOMAIN a : IsVariadic(a[i])}) <= 1}
RankRange(a) == IF VarIndex(a) # 0 THEN (Max(0, Len(a) - 2))..(Len(a) - 1 + MaxVarRank)
                ELSE (Max(0, Len(a) - 1))..(Len(a) + 1)
CandShapes(a) == UNION {[1..m -> Sizes] : m \in RankRange(a)}

\* the work items of one walk, in the order they are performed
Items(dims, shape) ==
  LET iv == VarIndex(dims) IN
  IF iv = 0 THEN
     IF Len(shape) # Len(dims) THEN << <<"rankfail">> >>
     ELSE <<<<"rank">>>> \o [i \in DOMAIN dims |-> <<"dim", dims[i], shape[i]>>]
  ELSE IF Len(shape) < Len(dims) - 1 THEN << <<"rankfail">> >>
  ELSE LET nsuf == Len(dims) - iv IN
       <<<<"rank">>>> \o [i \in 1..(iv - 1) |-> <<"dim", dims[i], shape[i]>>]
                \o [j \in 1..nsuf |-> <<"dim", dims[iv + j], shape[Len(shape) - nsuf + j]>>]
                \o << <<"var", dims[iv], Sub(shape, iv, Len(shape) - nsuf)>> >>

NoFault == [at |-> 0, cls |-> "none"]
VARIABLES live, snap, pc, items, i, fault, res, scen
vars == <<live, snap, pc, items, i, fault, res, scen>>

Init == \E pre \in Memos, a \in AnnsD :
          \E s \in CandShapes(a) :
            \E f \in {NoFault} \cup {[at |-> k, cls |-> c] : k \in 1..(Len(a) + 2), c \in {"Exception", "BaseException"}} :
              /\ live = pre /\ snap = pre /\ pc = "walk" /\ items = Items(a, s) /\ i = 1
              /\ fault = f /\ res = "?" /\ scen = [pre |-> pre, dims |-> a, shape |-> s]

\* one item of the walk on the live context
DoItem(it, m) ==
  IF it[1] = "rankfail" THEN [r |-> "F", memo |-> m]
  ELSE IF it[1] = "rank" THEN [r |-> "T", memo |-> m]
  ELSE IF it[1] = "dim" THEN
       LET c == CheckDims(<<it[2]>>, <<it[3]>>, m.single, EmptyFn, NoLabel) IN
       [r |-> c.r, memo |-> Memo(c.m, m.variadic)]
  ELSE \* "var": reuse the variadic branch of CheckShape on a one-token annotation
       LET c == CheckShape(<<it[2]>>, it[3], m, EmptyFn, NoLabel) IN c

Walk == /\ pc = "walk"
        /\ IF fault.at = i THEN pc' = "raised" /\ UNCHANGED <<live, i, res>>
           ELSE IF i > Len(items) THEN pc' = "done" /\ res' = "T" /\ UNCHANGED <<live, i>>   \* commit
           ELSE LET c == DoItem(items[i], live) IN
                IF c.r = "T" THEN live' = c.memo /\ i' = i + 1 /\ UNCHANGED <<pc, res>>
                ELSE /\ pc' = "failed" /\ res' = c.r /\ live' = c.memo /\ UNCHANGED i
        /\ UNCHANGED <<snap, items, fault, scen>>

Failed == /\ pc = "failed"
          /\ live' = IF RollbackMode = "never" THEN live ELSE snap
          /\ pc' = "done"
          /\ UNCHANGED <<snap, items, i, fault, res, scen>>

Raised == /\ pc = "raised"
          /\ live' = IF RollbackMode = "always" \/ (RollbackMode = "exception_only" /\ fault.cls = "Exception")
                     THEN snap ELSE live
          /\ res' = fault.cls /\ pc' = "done"
          /\ UNCHANGED <<snap, items, i, fault, scen>>

Next == Walk \/ Failed \/ Raised
Spec == Init /\ [][Next]_vars

\* C04: a check that returns False or raises leaves the context exactly as it was
NothingBoundOnFailure == (pc = "done" /\ res # "T") => live = snap
\* without a fault the interruptible walk is the coarse ArrayCheck of JtArray
FineEqualsCoarse ==
  (pc = "done" /\ fault = NoFault /\ RollbackMode = "always") =>
     LET c == ArrayCheck(scen.dims, [inst |-> TRUE, dtin |-> TRUE, shape |-> scen.shape], scen.pre, EmptyFn, NoLabel, FALSE)
     IN c.r = res /\ c.memo = live
\* the snapshot is never touched
SnapshotStable == snap = scen.pre
=============================================================================
