---------------------------- MODULE Emit_JtPyTree ----------------------------
EXTENDS MC_JtPyTree, Json, IOUtils
SE == INSTANCE SequencesExt
StructPres == {PMemo(EmptyFn, EmptyFn,
                     [n \in (IF t = Unb THEN {} ELSE {"T"}) \cup (IF s = Unb THEN {} ELSE {"S"}) |->
                        IF n = "T" THEN StructOf(t) ELSE StructOf(s)])
               : t \in SmallTrees \cup {Unb}, s \in SmallTrees \cup {Unb}}
ASSUME JsonSerialize(IOEnv.VERIF_OUT,
   IF Mode = "leaf"
   THEN [trees |-> SE!SetToSeq(TreeU), leafs |-> SE!SetToSeq(Leafs), memos |-> SE!SetToSeq(Memos),
         structs |-> SE!SetToSeq(StructSpecs),
         rowcount |-> Cardinality(TreeU) * Cardinality(Leafs) * Cardinality(Memos) * Cardinality(StructSpecs)]
   ELSE [trees |-> SE!SetToSeq(TreeU), small |-> SE!SetToSeq(SmallTrees \cup {Unb}),
         forms |-> SE!SetToSeq(Forms),
         rowcount |-> Cardinality(StructPres) * Cardinality(Forms) * Cardinality(TreeU)])
EmitInit == memo = EmptyPMemo /\ last = NoOp /\ sel = 0
EmitNext == UNCHANGED vars
=============================================================================
