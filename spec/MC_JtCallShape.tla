---------------------------- MODULE MC_JtCallShape ----------------------------
(* all signature shapes x call shapes; emitted for replay; sanity theorems on Binds *)
EXTENDS JtCallShape, Json, IOUtils
SE == INSTANCE SequencesExt
Sigs == {s \in [po : BOOLEAN, pk : BOOLEAN, va : BOOLEAN, ko : BOOLEAN, vk : BOOLEAN, dpo : BOOLEAN, dpk : BOOLEAN, dko : BOOLEAN] :
           /\ (s.dpo => s.po) /\ (s.dpk => s.pk) /\ (s.dko => s.ko)
           /\ (s.dpo /\ s.pk => s.dpk)}          \* no non-default parameter after a default one
Calls == {[npos |-> n, kws |-> k] : n \in 0..3, k \in SUBSET {"po", "pk", "ko", "extra"}}
VARIABLES sig, call
Init == sig \in Sigs /\ call \in Calls
Next == UNCHANGED <<sig, call>>
Spec == Init /\ [][Next]_<<sig, call>>
\* sanity: enough arguments of the right kinds always bind when *args and **kwargs are present
Liberal == (sig.va /\ sig.vk /\ (sig.po => call.npos >= 1) /\ (sig.pk => call.npos >= 2 \/ ("pk" \in call.kws /\ call.npos <= 1))
            /\ (sig.ko => "ko" \in call.kws) /\ (call.npos >= 2 /\ sig.pk => "pk" \notin call.kws)
            /\ (~sig.po /\ sig.pk /\ call.npos >= 1 => "pk" \notin call.kws)) => Binds(sig, call)
NoArgsNoParams == (~sig.po /\ ~sig.pk /\ ~sig.ko /\ call.npos = 0 /\ call.kws = {}) => Binds(sig, call)
ASSUME IOEnv.VERIF_OUT = "" \/ JsonSerialize(IOEnv.VERIF_OUT, [sigs |-> SE!SetToSeq(Sigs),
          calls |-> SE!SetToSeq({[npos |-> c.npos, kws |-> SE!SetToSeq(c.kws)] : c \in Calls})])
=============================================================================
