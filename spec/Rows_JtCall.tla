------------------------------ MODULE Rows_JtCall ------------------------------
(***************************************************************************)
(* code -> spec: each row is one abstract call (signature, argument shapes, *)
(* returned shape) that was executed on the implementation in several        *)
(* VARIANTS (typechecker, decorator spelling, def / dataclass, order of the  *)
(* parameters, positional / keyword, eager / jit / vmap / grad / eval_shape);*)
(* TLC decides the one outcome the specification allows and compares every   *)
(* variant with it.  It also checks on each row the instance of the theorem  *)
(* "the verdict is independent of the declaration order".                    *)
(***************************************************************************)
EXTENDS JtWrapper, Json, IOUtils

Rows == ndJsonDeserialize(IOEnv.VERIF_ROWS)

Call(r) == [params |-> r.params, shapes |-> r.shapes, hasret |-> r.hasret, rettoks |-> r.rettoks,
            retshape |-> r.retshape, args |-> r.args]

\* v.level: "full" (new-style: stage, blamed parameter, printed bindings, body count are all observable)
\*          "verdict-body" (a permuted declaration: verdict and number of body runs)
\*          "note" (old-style jaxtyped(tc(f)): verdict class, and the bindings attached as an exception note)
\*          "verdict" (dataclass: only accepted-or-raised is observable)
\*          "exact" (new-style, traced or eager: accepted / TypeCheckError / AnnotationError, exactly)
\* a permuted declaration may meet an ordinary mismatch before an unresolvable symbolic axis (or
\* vice versa): both are rejections, which is all C02 speaks about
Class(o) == IF o \in {"TCE", "AnnErr"} THEN "rejected" ELSE o
VariantOK(v, e) ==
  /\ IF v.level \in {"full", "exact"} THEN v.outcome = e.outcome ELSE Class(v.outcome) = Class(e.outcome)
  /\ (v.level = "full" /\ e.outcome = "TCE") =>
        /\ v.stage = e.stage
        /\ (e.stage = "params" => v.blamed = e.blamed)
        /\ v.printed = Printed(e.printed)
  /\ (v.level \in {"full", "verdict-body"}) => v.bodyruns = e.bodyruns
  \* old style: the checker's own exception carries a note with exactly the bindings in force (none => no note)
  /\ (v.level = "note" /\ e.outcome = "TCE") => v.printed = Printed(e.printed)

Expected(r) == LET e == CallOutcome(Call(r)) IN
  [outcome |-> e.outcome, stage |-> e.stage, blamed |-> e.blamed, printed |-> Printed(e.printed), bodyruns |-> e.bodyruns]

RowOK(r) == LET e == CallOutcome(Call(r)) IN
  /\ \A i \in DOMAIN r.variants : VariantOK(r.variants[i], e)
  /\ CallOrderFree(Call(r))

BadVariants(r) == LET e == CallOutcome(Call(r)) IN {r.variants[i].desc : i \in {j \in DOMAIN r.variants : ~VariantOK(r.variants[j], e)}}

VARIABLES l, nbad
vars == <<l, nbad>>
Init == l = 1 /\ nbad = 0
Next == /\ l <= Len(Rows)
        /\ LET r == Rows[l]  ok == RowOK(r) IN
           /\ (IF ok THEN TRUE ELSE PrintT(<<"MISMATCH", r.id, ToJson([expected |-> Expected(r), bad |-> BadVariants(r),
                                                                    orderfree |-> CallOrderFree(Call(r))])>>))
           /\ nbad' = IF ok THEN nbad ELSE nbad + 1
           /\ (IF l < Len(Rows) THEN TRUE ELSE PrintT(<<"DONE", Len(Rows), nbad'>>))
        /\ l' = l + 1
Spec == Init /\ [][Next]_vars
=============================================================================
