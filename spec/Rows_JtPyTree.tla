---------------------------- MODULE Rows_JtPyTree ----------------------------
(* code -> spec: each row is one `isinstance(tree, PyTree[L, struct])` executed on the   *)
(* implementation in a known context; TLC re-decides verdict and resulting context.     *)
EXTENDS JtPyTree, Json, IOUtils

Rows == ndJsonDeserialize(IOEnv.VERIF_ROWS)

Spec0(r) == IF r.bare THEN BarePyTree(r.x, r.pre)
            ELSE PyTreeCheck(r.L, r.S, r.x, r.pre, r.args, NoLabel, FALSE)
Expected(r) == Spec0(r)
\* where an unresolved symbolic axis / misplaced '?' and an ordinary mismatch co-occur the
\* statement allows either "F" or "E" (row.either is set by the generator only for such leaf types)
RowOK(r) == LET c == Spec0(r) IN
            /\ (r.res = c.r \/ (r.either /\ r.res \in {"F", "E"} /\ c.r \in {"F", "E"}))
            /\ r.post = (IF r.res = "T" THEN c.memo ELSE r.pre)

VARIABLES l, nbad
vars == <<l, nbad>>
Init == l = 1 /\ nbad = 0
Next == /\ l <= Len(Rows)
        /\ LET r == Rows[l]  ok == RowOK(r) IN
           /\ (IF ok THEN TRUE ELSE PrintT(<<"MISMATCH", r.id, ToJson(Expected(r))>>))
           /\ nbad' = IF ok THEN nbad ELSE nbad + 1
           /\ (IF l < Len(Rows) THEN TRUE ELSE PrintT(<<"DONE", Len(Rows), nbad'>>))
        /\ l' = l + 1
Spec == Init /\ [][Next]_vars
=============================================================================
