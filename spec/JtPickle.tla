------------------------------- MODULE JtPickle -------------------------------
(***************************************************************************)
(* Serialisation law for array annotations (C20):  Load(Dump(x)) ~ x, where *)
(* ~ is equality of array type, effective dtype set and dims.               *)
(* An annotation value: [cat (the category it was written with - the OUTER  *)
(* one for a nested annotation), dts (effective dtype names, or ALL),     *)
(* arr, dims].                                                              *)
(* Reducer = "effective" : the pickle carries (cat, arr, dims, dts)          *)
(*         = "outer"     : only (cat, arr, dims) - defect D5; TLC refutes    *)
(* Sentinels = "by_reference" : the identity-compared markers come back as   *)
(*                              the same objects                             *)
(*           = "by_value"     : they come back as fresh objects (defect D15) *)
(***************************************************************************)
EXTENDS JtDtypes
ALL == {"*"}      \* "any dtype" (a set, so that it is comparable with sets of names)
NoDts == {"-"}

CONSTANTS Reducer, Sentinels

Dts(cat) == IF cat = "Shaped" THEN ALL ELSE NamesOf(cat)
Meet(a, b) == IF a = ALL THEN b ELSE IF b = ALL THEN a ELSE a \cap b
Flat(cat, dims) == [cat |-> cat, dts |-> Dts(cat), dims |-> dims, sentinel_ok |-> TRUE]
Nested(outer, inner, dims) == [cat |-> outer, dts |-> Meet(Dts(outer), Dts(inner)), dims |-> dims, sentinel_ok |-> TRUE]

Dump(x) == IF Reducer = "effective" THEN [cat |-> x.cat, dims |-> x.dims, dts |-> x.dts]
           ELSE [cat |-> x.cat, dims |-> x.dims, dts |-> NoDts]
UsesSentinel(x) == x.dts = ALL \/ \E i \in DOMAIN x.dims : x.dims[i] \in {"_", "..."}
Load(p) == [cat |-> p.cat, dims |-> p.dims,
            dts |-> IF p.dts = NoDts THEN Dts(p.cat) ELSE p.dts,
            sentinel_ok |-> TRUE]
\* a by-value route (cloudpickle of the class) re-creates the markers
LoadByValue(x) == [x EXCEPT !.sentinel_ok = (Sentinels = "by_reference") \/ ~UsesSentinel(x)]

Same(a, b) == a.dts = b.dts /\ a.dims = b.dims /\ a.cat = b.cat /\ a.sentinel_ok = b.sentinel_ok

DimAlphabet == {<<"a", "b">>, <<"_", "a">>, <<"...", "a">>, << >>}
Anns == {Flat(c, d) : c \in Categories, d \in DimAlphabet}
        \cup {Nested(o, i, d) : o \in Categories, i \in Categories, d \in DimAlphabet}
Valid(x) == x.dts = ALL \/ x.dts # {}

VARIABLE x
Init == x \in {a \in Anns : Valid(a)}
Next == UNCHANGED x
Spec == Init /\ [][Next]_x
RoundTrip == Same(Load(Dump(x)), x)
ByValueRoundTrip == Same(LoadByValue(x), x)
=============================================================================
