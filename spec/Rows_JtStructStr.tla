--------------------------- MODULE Rows_JtStructStr ---------------------------
(* structure strings handed to PyTree[leaf, string]: what construction may do *)
EXTENDS JtPyTree, Json, IOUtils
Rows == ndJsonDeserialize(IOEnv.VERIF_ROWS)
AllowedBuild(r) == IF r.pieces = <<"nonstr">> THEN {"ValueError"}
                   ELSE StructStringAllowed([i \in DOMAIN r.pieces |-> IF r.pieces[i] = "bad" THEN "x" ELSE r.pieces[i]])
RowOK(r) == r.build \in AllowedBuild(r)
VARIABLES l, nbad
vars == <<l, nbad>>
Init == l = 1 /\ nbad = 0
Next == /\ l <= Len(Rows)
        /\ LET r == Rows[l]  ok == RowOK(r) IN
           /\ (IF ok THEN TRUE ELSE PrintT(<<"MISMATCH", r.id, ToJson(AllowedBuild(r))>>))
           /\ nbad' = IF ok THEN nbad ELSE nbad + 1
           /\ (IF l < Len(Rows) THEN TRUE ELSE PrintT(<<"DONE", Len(Rows), nbad'>>))
        /\ l' = l + 1
Spec == Init /\ [][Next]_vars
=============================================================================
