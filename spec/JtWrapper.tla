------------------------------- MODULE JtWrapper -------------------------------
(***************************************************************************)
(* One call of a function decorated with jaxtyped(typechecker=...):         *)
(*   bind -> push a fresh context holding the call's arguments              *)
(*        -> check the parameters in declared order (fold of ArrayCheck)    *)
(*        -> [failure: localise the parameter, build the message] -> pop    *)
(*        -> run the body exactly once                                      *)
(*        -> check parameters again and the returned value                  *)
(*        -> [failure: build the message] -> pop                            *)
(* written as pure operators over JtArray; the step-by-step life-time view  *)
(* (push / pop / exits of any kind) is JtProgram.                           *)
(*                                                                         *)
(* call: [params |-> <<[nm, toks]>>, shapes |-> <<shape>>,                  *)
(*        hasret |-> BOOLEAN, rettoks, retshape, args |-> [name -> int]]    *)
(***************************************************************************)
EXTENDS JtArray

ArrObj(s) == [inst |-> TRUE, dtin |-> TRUE, shape |-> s]

\* fold over parameters i..n: [r, i (first failing index, 0 if none), memo (context at that moment)]
RECURSIVE ParamFold(_, _, _, _, _)
ParamFold(params, shapes, i, memo, args) ==
  IF i > Len(params) THEN [r |-> "T", i |-> 0, memo |-> memo]
  ELSE LET c == ArrayCheck(ParseSpec(params[i].toks).dims, ArrObj(shapes[i]), memo, args, NoLabel, FALSE) IN
       IF c.r = "T" THEN ParamFold(params, shapes, i + 1, c.memo, args)
       ELSE [r |-> c.r, i |-> i, memo |-> memo]

Outcome(o, stage, blamed, memo, runs) ==
  [outcome |-> o, stage |-> stage, blamed |-> blamed, printed |-> memo, bodyruns |-> runs]

CallOutcome(call) ==
  LET pf == ParamFold(call.params, call.shapes, 1, EmptyMemo, call.args) IN
  IF pf.r = "E" THEN Outcome("AnnErr", "params", "", pf.memo, 0)
  ELSE IF pf.r = "F" THEN Outcome("TCE", "params", call.params[pf.i].nm, pf.memo, 0)
  ELSE IF ~call.hasret THEN Outcome("ok", "", "", pf.memo, 1)
  ELSE \* the body ran; parameters are checked again (idempotent), then the returned value
       LET pf2 == ParamFold(call.params, call.shapes, 1, pf.memo, call.args)
           rc == ArrayCheck(ParseSpec(call.rettoks).dims, ArrObj(call.retshape), pf2.memo, call.args, NoLabel, FALSE)
       IN IF rc.r = "T" THEN Outcome("ok", "", "", rc.memo, 1)
          ELSE IF rc.r = "E" THEN Outcome("AnnErr", "return", "", pf2.memo, 1)
          ELSE Outcome("TCE", "return", "", pf2.memo, 1)

\* the verdict class only (what C02 speaks about)
Verdict(call) == LET o == CallOutcome(call).outcome IN o

\* declaratively: one assignment under which every annotated argument and the result match
\* (used with the Sols machinery of MC_JtArray; see GreedyIsSat / SolsStep)
HasSym(toks) == \E i \in DOMAIN toks : toks[i].base.k = "sym"
NoSymCall(call) == (\A i \in DOMAIN call.params : ~HasSym(call.params[i].toks)) /\ ~HasSym(call.rettoks)

PermsN(n) == {p \in [1..n -> 1..n] : \A i, j \in 1..n : i # j => p[i] # p[j]}
Permute(call, p) == [call EXCEPT !.params = [i \in DOMAIN call.params |-> call.params[p[i]]],
                                 !.shapes = [i \in DOMAIN call.shapes |-> call.shapes[p[i]]]]
\* C02: the verdict does not depend on the order in which the parameters are declared
CallOrderFree(call) == NoSymCall(call) =>
   \A p \in PermsN(Len(call.params)) : Verdict(Permute(call, p)) = Verdict(call)

\* what the error message lists: names and sizes / shapes (the was-broadcastable bit is not printed)
Printed(memo) == [single |-> memo.single,
                  variadic |-> [k \in DOMAIN memo.variadic |-> memo.variadic[k].s]]
=============================================================================
