----------------------------- MODULE Emit_JtArray -----------------------------
(* Emits the factors of the MC_JtArray table (Memos, Pairs) as JSON, so that the   *)
(* harness can form the product mechanically and execute every row on the real code *)
EXTENDS MC_JtArray, Json, IOUtils
SE == INSTANCE SequencesExt
ASSUME JsonSerialize(IOEnv.VERIF_OUT,
         [memos |-> SE!SetToSeq(Memos),
          pairs |-> SE!SetToSeq({[toks |-> p[1], obj |-> p[2]] : p \in Pairs}),
          args |-> Args,
          rowcount |-> RowCount])
EmitInit == memo = EmptyMemo /\ last = NoOp
EmitNext == UNCHANGED vars
=============================================================================
