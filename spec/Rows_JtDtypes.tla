------------------------------ MODULE Rows_JtDtypes ------------------------------
(***************************************************************************)
(* code -> spec for C03 / C15 / C20.  Row kinds:                            *)
(*  "dtype" : isinstance(array of a concrete dtype on some backend,          *)
(*            Category[ArrayType, "..."])  vs  Accepts                       *)
(*  "user"  : the same for a user-defined category (strings / patterns)      *)
(*  "nest"  : D2[D1[A, s1], s2]: construction outcome and acceptance vector  *)
(*            over (dtype class, shape) probes vs intersection + 's2 s1'      *)
(*  "scalar": D[bool|int|float|complex, dims] construction vs ScalarSurvives *)
(***************************************************************************)
EXTENDS JtDtypes, JtArray, Json, IOUtils

Rows == ndJsonDeserialize(IOEnv.VERIF_ROWS)

\* a category is one of the exported names, or "User": a user-defined category described by [strings, patterns]
\* (r.u1 / r.u2); user categories are only nested with Shaped or with themselves (the implementation intersects the
\* dtype ENTRIES, and what a pattern has in common with a name is not documented)
AcceptsX(d, u, cls) == IF d = "User" THEN UserAccepts(u.strings, u.patterns, cls.chars) ELSE Accepts(d, cls)
NestOKX(d1, d2) == IF d1 = "User" \/ d2 = "User" THEN TRUE ELSE NestOK(d1, d2)
NestExpected(r) ==
  LET p1 == ParseSpec(r.s1)   p2 == ParseSpec(r.s2)
      bothvar == VarIndex(p1.dims) # 0 /\ VarIndex(p2.dims) # 0
  IN IF ~NestOKX(r.d1, r.d2) \/ bothvar THEN [build |-> "ValueError", vec |-> << >>]
     ELSE [build |-> "ok",
           vec |-> [i \in DOMAIN r.probes |->
                      \* the dtype is looked at first; the shape walk may answer "E" (a '?' axis outside a structured PyTree)
                      IF ~(AcceptsX(r.d1, r.u1, r.probes[i].cls) /\ AcceptsX(r.d2, r.u2, r.probes[i].cls)) THEN "F"
                      ELSE CheckShape(p2.dims \o p1.dims, r.probes[i].shape, EmptyMemo, EmptyFn, NoLabel).r]]

Expected(r) ==
  CASE r.kind = "dtype" -> [res |-> IF Accepts(r.cat, r.cls) THEN "T" ELSE "F"]
    [] r.kind = "user" -> [res |-> IF UserAccepts(r.strings, r.patterns, r.name) THEN "T" ELSE "F"]
    [] r.kind = "nest" -> NestExpected(r)
    [] r.kind = "scalar" -> [build |-> ScalarAllowed(r.cat, r.py, r.allvar)]

RowOK(r) ==
  LET e == Expected(r) IN
  CASE r.kind \in {"dtype", "user"} -> r.res = e.res
    [] r.kind = "nest" -> r.build = e.build /\ (e.build = "ok" => r.vec = e.vec)
    [] r.kind = "scalar" -> r.build \in e.build

VARIABLES l, nbad
vars == <<l, nbad>>
Init == l = 1 /\ nbad = 0
Next == /\ l <= Len(Rows)
        /\ LET r == Rows[l]  ok == RowOK(r) IN
           /\ (IF ok THEN TRUE ELSE PrintT(<<"MISMATCH", r.id, ToJson(Expected(r))>>))
           /\ nbad' = IF ok THEN nbad ELSE nbad + 1
           /\ (IF l < Len(Rows) THEN TRUE ELSE PrintT(<<"DONE", Len(Rows), nbad'>>))
        /\ l' = l + 1
Spec == Init /\ [][Next]_vars
=============================================================================
