------------------------------ MODULE JtWrapper2 ------------------------------
(***************************************************************************)
(* JtWrapper generalised from array-annotated parameters to any hint of the *)
(* JtPyTree leaf-type catalogue: arrays, unions (first matching member; a   *)
(* member that fails after binding leaves what it bound unless it was an    *)
(* array check, which restores itself), tuples, PyTree[L] and PyTree[L,"S"]. *)
(* Values are abstract trees.  The context now also carries structure names. *)
(***************************************************************************)
EXTENDS JtPyTree

RECURSIVE ParamFold2(_, _, _, _, _)
\* [r, i, memo]: memo = the context at the moment the failure was detected
ParamFold2(params, vals, i, memo, args) ==
  IF i > Len(params) THEN [r |-> "T", i |-> 0, memo |-> memo]
  ELSE LET c == FullMatch(params[i].hint, vals[i], memo, args, NoLabel, FALSE) IN
       IF c.r = "T" THEN ParamFold2(params, vals, i + 1, c.memo, args)
       ELSE [r |-> c.r, i |-> i, memo |-> c.memo]

Outcome2(o, stage, blamed, memo, runs) ==
  [outcome |-> o, stage |-> stage, blamed |-> blamed, printed |-> memo, bodyruns |-> runs]

CallOutcome2(call) ==
  LET pf == ParamFold2(call.params, call.vals, 1, EmptyPMemo, call.args) IN
  IF pf.r = "E" THEN Outcome2("AnnErr", "params", "", pf.memo, 0)
  ELSE IF pf.r = "F" THEN Outcome2("TCE", "params", call.params[pf.i].nm, pf.memo, 0)
  ELSE IF ~call.hasret THEN Outcome2("ok", "", "", pf.memo, 1)
  ELSE LET pf2 == ParamFold2(call.params, call.vals, 1, pf.memo, call.args)
           rc == FullMatch(call.rethint, call.retval, pf2.memo, call.args, NoLabel, FALSE)
       IN IF rc.r = "T" THEN Outcome2("ok", "", "", rc.memo, 1)
          ELSE IF rc.r = "E" THEN Outcome2("AnnErr", "return", "", rc.memo, 1)
          ELSE Outcome2("TCE", "return", "", rc.memo, 1)

\* what the message lists: axis sizes, variadic shapes, and the NAMES of the bound structures
Printed2(memo) == [single |-> memo.single,
                   variadic |-> [k \in DOMAIN memo.variadic |-> memo.variadic[k].s],
                   structs |-> DOMAIN memo.pytree]
=============================================================================
