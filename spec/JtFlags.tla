-------------------------------- MODULE JtFlags --------------------------------
(***************************************************************************)
(* The two transient flags of a PyTree check, at the grain at which user    *)
(* code can interrupt it:                                                   *)
(*   flatten : "only look at the array type" while jax flattens the tree    *)
(*   label   : the current '?'-leaf position                                 *)
(* One check = Begin -> SetFlatten -> call-outs during flattening (custom   *)
(* tree_flatten, leaf-type __instancecheck__, a nested PyTree check) ->     *)
(* RestoreFlatten -> for each leaf: SetLabel -> call-out (the leaf check)   *)
(* -> ClearLabel -> End.  Every call-out may raise Exception/BaseException. *)
(* A structure-less PyTree nested as leaf type runs the same machine one    *)
(* level deeper and must leave the enclosing check's flags as it found      *)
(* them.                                                                    *)
(* Discipline = "finally"    : flags are restored in finally-clauses        *)
(*            = "no_finally" : restored only on the normal path (broken)    *)
(* Quiescent: when no check is in progress both flags are reset.            *)
(***************************************************************************)
EXTENDS Integers, Sequences, TLC

CONSTANTS Discipline, MaxLeaves, MaxDepth

VARIABLES flatten, label, stack, ops
\* stack: frames of checks in progress, innermost last:
\*   [pc, structured, leaf, was (flatten flag found on entry), saw (label found on entry)]
vars == <<flatten, label, stack, ops>>
NoLabel == 0

Init == flatten = FALSE /\ label = NoLabel /\ stack = << >> /\ ops = 0
Top == stack[Len(stack)]
SetTop(f) == stack' = [stack EXCEPT ![Len(stack)] = f]
Pop == stack' = SubSeq(stack, 1, Len(stack) - 1)

Begin(structured) ==
  /\ Len(stack) < MaxDepth /\ ops < 4
  /\ (IF stack = << >> THEN TRUE ELSE Top.pc \in {"flattening", "leafcheck"})   \* top level, or a call-out of another check
  \* a structured check beneath a structured one is rejected (AnnotationError) before it touches anything
  /\ ~(structured /\ label # NoLabel)
  /\ stack' = Append(stack, [pc |-> "start", structured |-> structured, leaf |-> 0, was |-> flatten, saw |-> label])
  /\ ops' = ops + 1 /\ UNCHANGED <<flatten, label>>

SetFlatten == /\ stack # << >> /\ Top.pc = "start"
              /\ flatten' = TRUE /\ SetTop([Top EXCEPT !.pc = "flattening"]) /\ UNCHANGED <<label, ops>>
RestoreFlatten == /\ stack # << >> /\ Top.pc = "flattening"
                  /\ flatten' = Top.was /\ SetTop([Top EXCEPT !.pc = "leaves"]) /\ UNCHANGED <<label, ops>>
NextLeaf == /\ stack # << >> /\ Top.pc = "leaves" /\ Top.leaf < MaxLeaves
            /\ label' = IF Top.structured THEN Top.leaf + 1 ELSE label
            /\ SetTop([Top EXCEPT !.pc = "leafcheck", !.leaf = @ + 1]) /\ UNCHANGED <<flatten, ops>>
LeafDone == /\ stack # << >> /\ Top.pc = "leafcheck"
            /\ label' = IF Top.structured THEN NoLabel ELSE label
            /\ SetTop([Top EXCEPT !.pc = "leaves"]) /\ UNCHANGED <<flatten, ops>>
End == /\ stack # << >> /\ Top.pc = "leaves"
       /\ Pop /\ UNCHANGED <<flatten, label, ops>>

\* user code raises during a call-out: every enclosing check unwinds
RECURSIVE Unwound(_, _, _)
Unwound(st, fl, lb) ==
  IF st = << >> THEN [flatten |-> fl, label |-> lb]
  ELSE LET f == st[Len(st)]
           fl2 == IF Discipline = "finally" /\ f.pc = "flattening" THEN f.was ELSE fl
           lb2 == IF Discipline = "finally" /\ f.pc = "leafcheck" /\ f.structured THEN NoLabel ELSE lb
       IN Unwound(SubSeq(st, 1, Len(st) - 1), fl2, lb2)
Raise == /\ stack # << >> /\ Top.pc \in {"flattening", "leafcheck"}
         /\ LET u == Unwound(stack, flatten, label) IN flatten' = u.flatten /\ label' = u.label
         /\ stack' = << >> /\ UNCHANGED ops

Next == \E s \in BOOLEAN : Begin(s)
        \/ SetFlatten \/ RestoreFlatten \/ NextLeaf \/ LeafDone \/ End \/ Raise
Spec == Init /\ [][Next]_vars

Quiescent == stack = << >> => (flatten = FALSE /\ label = NoLabel)
\* while a structured check examines a leaf, the position is that leaf's - also after nested
\* structure-less checks returned
LabelIsInnermostStructured ==
  \A i \in DOMAIN stack : (stack[i].structured /\ stack[i].pc = "leafcheck"
                           /\ \A j \in (i + 1)..Len(stack) : stack[j].pc # "leafcheck" \/ ~stack[j].structured)
                          => label = stack[i].leaf
\* while the outermost check is flattening, nested checks never switch the type-only mode off
FlattenStaysOn == (stack # << >> /\ stack[1].pc = "flattening") => flatten = TRUE
=============================================================================
