------------------------------ MODULE MC_JtPyTree ------------------------------
(***************************************************************************)
(* Bounded universes and TLC-checked theorems for JtPyTree.                 *)
(*  Mode "leaf"   (C08/C04/C16): context x leaf type x structure spec x tree *)
(*  Mode "struct" (C09): (t bound to T, s bound to S, candidate x, form)     *)
(* Depth-1 transition tables: Init = every pre-state, Next = one check.      *)
(***************************************************************************)
EXTENDS JtPyTree

CONSTANTS Mode, Depth, Width, NodeKinds, AtomSet, SmallDepth, LeafSet, MemoSet

SeqsUpTo(S, n) == UNION {[1..m -> S] : m \in 0..n}

Atom(a) == CASE a = "int" -> IntAtom [] a = "str" -> StrAtom [] a = "flt" -> FltAtom
             [] a = "arr0" -> ArrAtom(<<0>>, "f")
             [] a = "arr2" -> ArrAtom(<<2>>, "f") [] a = "arr3" -> ArrAtom(<<3>>, "f")
             [] a = "arr2i" -> ArrAtom(<<2>>, "i") [] a = "arr23" -> ArrAtom(<<2, 3>>, "f")
Atoms == {Atom(a) : a \in AtomSet}
KeysFor(n) == IF n = 0 THEN << >> ELSE IF n = 1 THEN <<"k1">> ELSE IF n = 2 THEN <<"k1", "k2">> ELSE <<"k1", "k2", "k3">>
MkNode(k, cs) == IF k = "acust" THEN [k |-> "acust", c |-> cs, keys |-> << >>, shape |-> <<2>>, dt |-> "f"]
                 ELSE Node(k, cs, IF k = "dict" THEN KeysFor(Len(cs)) ELSE << >>)
\* a namedtuple has exactly two fields, a custom node one or two children
ArityOK(k, n) == CASE k = "nt" -> n = 2 [] k = "cust" -> n \in {1, 2} [] k = "acust" -> n = 1 [] OTHER -> TRUE
RECURSIVE Trees(_)
Trees(d) == IF d = 0 THEN Atoms \cup {NoneNode}
            ELSE LET sub == Trees(d - 1) IN
                 sub \cup {MkNode(k, cs) : k \in NodeKinds, cs \in SeqsUpTo(sub, Width)}
AllTrees == Trees(Depth)
RECURSIVE Arities(_)
Arities(x) == IF IsAtom(x) \/ x.k = "none" THEN TRUE
              ELSE ArityOK(x.k, Len(x.c)) /\ \A i \in DOMAIN x.c : Arities(x.c[i])
TreeU == {x \in AllTrees : Arities(x)}
\* what T / S can be bound to through the API (a top-level None is accepted without binding)
SmallTrees == {x \in Trees(SmallDepth) : Arities(x)} \ {NoneNode}

SName0(n) == [pieces |-> <<n>>, dots |-> "none", str |-> n]
T1(mods, k, nm) == Tok(mods, Base(k, nm, 0, NoExpr))
ArrA  == <<"arr", <<T1(<< >>, "ident", "a")>>, "f">>
ArrV  == <<"arr", <<T1(<<"*">>, "ident", "v")>>, "f">>
ArrBV == <<"arr", <<T1(<<"#", "*">>, "ident", "v")>>, "f">>
ArrAi == <<"arr", <<T1(<< >>, "ident", "a")>>, "i">>
ArrQ  == <<"arr", <<T1(<<"?">>, "ident", "a")>>, "f">>
ArrQV == <<"arr", <<T1(<<"*", "?">>, "ident", "v")>>, "f">>
ArrBQV == <<"arr", <<T1(<<"#", "*", "?">>, "ident", "v")>>, "f">>
ArrAnyA == <<"arr", <<T1(<< >>, "ident", "a")>>, "f", "any">>
ArrAnyV == <<"arr", <<T1(<<"*">>, "ident", "v")>>, "s", "any">>
ArrAny == <<"arr", <<T1(<< >>, "dots", "")>>, "s">>
LeafCatalogue ==
  [int |-> <<"int">>, str |-> <<"str">>, tup2 |-> <<"tup2">>, any |-> <<"any">>,
   uis |-> <<"union", <<"int">>, <<"str">>>>, uSpt |-> <<"union", <<"str">>, <<"pt", <<"int">>>>>>,
   uptS |-> <<"union", <<"pt", <<"int">>>>, <<"str">>>>, arrA |-> ArrA, arrV |-> ArrV, arrBV |-> ArrBV, arrAi |-> ArrAi,
   uAi |-> <<"union", ArrA, <<"int">>>>, uAV |-> <<"union", ArrAi, ArrV>>, uAshV |-> <<"union", ArrA, ArrV>>, tupA |-> <<"tupA", ArrA>>,
   utA |-> <<"union", <<"tupA", ArrA>>, ArrV>>,
   ptA |-> <<"pt", ArrA>>, ptI |-> <<"pt", <<"int">>>>, ptptA |-> <<"pt", <<"pt", ArrA>>>>,
   arrQ |-> ArrQ, arrQV |-> ArrQV, uQ |-> <<"union", ArrQ, <<"int">>>>, tupQ |-> <<"tupA", ArrQ>>,
   ptQ |-> <<"pt", ArrQ>>, arrAny |-> ArrAny, arrBQV |-> ArrBQV,
   uisP |-> <<"union|", <<"int">>, <<"str">>>>, uAiP |-> <<"union|", ArrA, <<"int">>>>, uAshVP |-> <<"union|", ArrA, ArrV>>,
   arrAnyA |-> ArrAnyA, arrAnyV |-> ArrAnyV, ptAnyA |-> <<"pt", ArrAnyA>>, uAnyAi |-> <<"union", ArrAnyA, <<"int">>>>,
   ptSQ |-> <<"ptS", ArrQ, SName0("U")>>, ptSA |-> <<"ptS", ArrA, SName0("U")>>,
   arrQa |-> <<"arr", <<T1(<<"?">>, "ident", "a"), T1(<< >>, "ident", "a")>>, "f">>,
   arraQ |-> <<"arr", <<T1(<< >>, "ident", "a"), T1(<<"?">>, "ident", "a")>>, "f">>]
Leafs == {LeafCatalogue[l] : l \in LeafSet}

SName(n) == [pieces |-> <<n>>, dots |-> "none", str |-> n]
QK(i, nm) == LabelOf(i, SName("T")) \o nm
Pair2 == SNode("tuple", <<Star, Star>>, << >>)
MemoCatalogue ==
  [empty |-> EmptyPMemo,
   a0 |-> PMemo([a |-> 0], EmptyFn, EmptyFn),
   a2 |-> PMemo([a |-> 2], EmptyFn, EmptyFn),
   a3 |-> PMemo([a |-> 3], EmptyFn, EmptyFn),
   v2 |-> PMemo(EmptyFn, [v |-> [b |-> FALSE, s |-> <<2>>]], EmptyFn),
   bv1 |-> PMemo(EmptyFn, [v |-> [b |-> TRUE, s |-> <<1>>]], EmptyFn),
   \* T = (*, *) bound by an earlier tree whose leaves had '?a' sizes 2 and 3
   qT23 |-> PMemo(Bind(Bind(EmptyFn, QK(0, "a"), 2), QK(1, "a"), 3), EmptyFn, [T |-> Pair2]),
   \* ... and a plain axis a = 3 next to it
   qT23a |-> PMemo(Bind(Bind([a |-> 3], QK(0, "a"), 2), QK(1, "a"), 3), EmptyFn, [T |-> Pair2]),
   tpair |-> PMemo(EmptyFn, EmptyFn, [T |-> Pair2]),
   tpair_a2 |-> PMemo([a |-> 2], EmptyFn, [T |-> Pair2]),
   \* broadcastable per-leaf bindings of 'v' (leaf 0: (1,), leaf 1: (2,)) next to a plain v = (3,)
   qTbv |-> PMemo(EmptyFn, Bind(Bind([v |-> [b |-> FALSE, s |-> <<3>>]], QK(0, "v"), [b |-> TRUE, s |-> <<1>>]), QK(1, "v"), [b |-> TRUE, s |-> <<2>>]),
                  [T |-> Pair2]),
   qTv |-> PMemo(EmptyFn, Bind(Bind(EmptyFn, QK(0, "v"), [b |-> FALSE, s |-> <<2>>]), QK(1, "v"), [b |-> FALSE, s |-> <<2, 3>>]),
                 [T |-> Pair2])]
Memos == {MemoCatalogue[m] : m \in MemoSet}

Args == EmptyFn
VARIABLES memo, last, sel      \* sel: the (leaf type, structure spec) / form of this table slice
vars == <<memo, last, sel>>
NoOp == [k |-> "init"]

(* ------------------------------ mode "leaf" ------------------------------ *)
StructSpecs == {NoStruct, SName("T")}
LeafInit == memo \in Memos /\ last = NoOp /\ sel \in Leafs \X StructSpecs
LeafCheck(L, S, x) ==
  LET c == PyTreeCheck(L, S, x, memo, Args, NoLabel, FALSE) IN
  /\ memo' = c.memo /\ UNCHANGED sel
  /\ last' = [k |-> "leaf", L |-> L, S |-> S, x |-> x, pre |-> memo, r |-> c.r]
LeafNext == last = NoOp /\ \E x \in TreeU : LeafCheck(sel[1], sel[2], x)

(* ------------------------------ mode "struct" ---------------------------- *)
Forms == {[pieces |-> <<"T">>, dots |-> "none", str |-> "T"],
          [pieces |-> <<"S", "T">>, dots |-> "none", str |-> "S T"],
          [pieces |-> <<"T", "S">>, dots |-> "none", str |-> "T S"],
          [pieces |-> <<"T", "T">>, dots |-> "none", str |-> "T T"],          \* a name may be repeated
          [pieces |-> <<"S", "T", "S">>, dots |-> "none", str |-> "S T S"],
          [pieces |-> <<"T">>, dots |-> "post", str |-> "T ..."],
          [pieces |-> <<"T">>, dots |-> "pre", str |-> "... T"],
          [pieces |-> <<"S", "T">>, dots |-> "post", str |-> "S T ..."],
          [pieces |-> <<"S", "T">>, dots |-> "pre", str |-> "... S T"]}
StructOf(x) == JaxFlatten(x).struct
Unb == [k |-> "unbound"]
StructInit == /\ \E t \in SmallTrees \cup {Unb}, s \in SmallTrees \cup {Unb} :
                   memo = PMemo(EmptyFn, EmptyFn,
                                [n \in (IF t = Unb THEN {} ELSE {"T"}) \cup (IF s = Unb THEN {} ELSE {"S"}) |->
                                   IF n = "T" THEN StructOf(t) ELSE StructOf(s)])
              /\ last = NoOp /\ sel \in Forms
StructCheck(F, x) ==
  LET c == PyTreeCheck(<<"any">>, F, x, memo, Args, NoLabel, FALSE) IN
  /\ memo' = c.memo /\ UNCHANGED sel
  /\ last' = [k |-> "struct", L |-> <<"any">>, S |-> F, x |-> x, pre |-> memo, r |-> c.r]
StructNext == last = NoOp /\ \E x \in TreeU : StructCheck(sel, x)

Init == IF Mode = "leaf" THEN LeafInit ELSE StructInit
Next == IF Mode = "leaf" THEN LeafNext ELSE StructNext
Spec == Init /\ [][Next]_vars

(* ------------------------------ theorems ------------------------------ *)
Done == last # NoOp
\* a rejected (or raising) tree binds nothing
Rollback == Done /\ last.r # "T" => memo = last.pre
\* PyTree[L] and PyTree[PyTree[L]] accept the same values and bind the same
NestEquiv == (Done /\ Mode = "leaf" /\ IsNoStruct(last.S)) =>
   PyTreeCheck(<<"pt", last.L>>, last.S, last.x, last.pre, Args, NoLabel, FALSE) = [r |-> last.r, memo |-> memo]
\* a top-level None is always accepted and binds nothing
NoneAccepted == (Done /\ last.x = NoneNode) => last.r = "T" /\ memo = last.pre
\* accepted iff every discovered leaf matches (declaratively: fold of FullMatch over the leaves)
Idempotent == (Done /\ last.r = "T") =>
   PyTreeCheck(last.L, last.S, last.x, memo, Args, NoLabel, FALSE) = [r |-> "T", memo |-> memo]
\* a passing check never changes an existing axis binding or structure binding
Monotone == (Done /\ last.r = "T") =>
   /\ \A k \in DOMAIN last.pre.single : k \in DOMAIN memo.single /\ memo.single[k] = last.pre.single[k]
   /\ \A k \in DOMAIN last.pre.pytree : k \in DOMAIN memo.pytree /\ memo.pytree[k] = last.pre.pytree[k]
\* '?name' keys never collide with plain names
QKeysDisjoint == Done => \A k \in DOMAIN memo.single \ DOMAIN last.pre.single :
                    k \in {"a", "b"} \/ \E i \in 0..8 : k = LabelOf(i, SName("T")) \o "a"
\* leaves at the same position of trees annotated with the same structure name must agree on '?a';
\* different positions are independent; a plain 'a' is a different axis
QPerLeaf == (Done /\ last.r = "T" /\ ~IsNoStruct(last.S)) =>
   \A i \in 0..8 : LET k == QK(i, "a") IN
      (k \in DOMAIN last.pre.single /\ k \in DOMAIN memo.single) => memo.single[k] = last.pre.single[k]
\* C09 declarative reading of the forms
FormMeaning == (Done /\ Mode = "struct" /\ {"T", "S"} \subseteq DOMAIN last.pre.pytree /\ last.x # NoneNode) =>
   LET T == last.pre.pytree["T"]   S == last.pre.pytree["S"]   sx == StructOf(last.x)   F == last.S IN
   (last.r = "T") <=>
      CASE F.str = "T" -> sx = T
        [] F.str = "S T" -> sx = Compose(S, T)
        [] F.str = "T S" -> sx = Compose(T, S)
        [] F.str = "T T" -> sx = Compose(T, T)
        [] F.str = "S T S" -> sx = Compose(Compose(S, T), S)
        [] F.str = "T ..." -> IsPrefix(T, sx)
        [] F.str = "... T" -> SuffixOK(T, sx)
        [] F.str = "S T ..." -> IsPrefix(Compose(S, T), sx)
        [] F.str = "... S T" -> SuffixOK(Compose(S, T), sx)
UnboundIsError == (Done /\ Mode = "struct" /\ last.x # NoneNode
                   /\ ~(Len(last.S.pieces) = 1 /\ last.S.dots = "none")
                   /\ \E i \in DOMAIN last.S.pieces : last.S.pieces[i] \notin DOMAIN last.pre.pytree)
                  => last.r = "E"
=============================================================================
