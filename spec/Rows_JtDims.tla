----------------------------- MODULE Rows_JtDims -----------------------------
(* code -> spec for C14: each row is one dim specification that was handed to the     *)
(* implementation: what building the annotation did, and - when it was built - how the *)
(* annotation answered on every probe shape under the fixed prior bindings.            *)
EXTENDS MC_JtDims, Json, IOUtils

Rows == ndJsonDeserialize(IOEnv.VERIF_ROWS)

Expected(r) ==
  IF r.kind = "nonstr" THEN [build |-> {"ValueError"}]
  ELSE LET p == ParseSpec(r.toks) IN
       IF p.ok /\ ~p.unspec THEN [build |-> BuildAllowed(r.toks), vec |-> VecAllowed(r.toks)]
       ELSE [build |-> BuildAllowed(r.toks), why |-> p.why]

RowOK(r) ==
  IF r.kind = "nonstr" THEN r.build = "ValueError"
  ELSE /\ r.build \in BuildAllowed(r.toks)
       \* an illegal specification is illegal whatever the array type (here: Python's float)
       /\ (BuildAllowed(r.toks) = {"ValueError"}) => r.build_scalar = "ValueError"
       /\ LET p == ParseSpec(r.toks) IN
          (r.build = "ok" /\ p.ok /\ ~p.unspec) =>
             LET va == VecAllowed(r.toks) IN
             /\ Len(r.vec) = Len(Probes)
             /\ \A i \in DOMAIN Probes : r.vec[i] \in va[i]

VARIABLES l, nbad
vars == <<l, nbad>>
RInit == l = 1 /\ nbad = 0
RNext == /\ l <= Len(Rows)
         /\ LET r == Rows[l]  ok == RowOK(r) IN
            /\ (IF ok THEN TRUE ELSE PrintT(<<"MISMATCH", r.id, ToJson(Expected(r))>>))
            /\ nbad' = IF ok THEN nbad ELSE nbad + 1
            /\ (IF l < Len(Rows) THEN TRUE ELSE PrintT(<<"DONE", Len(Rows), nbad'>>))
         /\ l' = l + 1 /\ UNCHANGED tok
RSpec == (RInit /\ tok = Tok(<< >>, Base("empty", "", 0, NoExpr))) /\ [][RNext]_<<vars, tok>>
=============================================================================
