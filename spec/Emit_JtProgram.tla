---------------------------- MODULE Emit_JtProgram ----------------------------
(* prints every behaviour of exactly MaxSteps program actions, with the observation the *)
(* specification expects after each action (spec -> code replay)                          *)
EXTENDS JtProgram, Json
VARIABLE ohist
EInit == Init /\ ohist = << >>
ENext == Next /\ ohist' = Append(ohist, obs')
ESpec == EInit /\ [][ENext]_<<vars, ohist>>
Emit == IF Len(hist) = MaxSteps THEN PrintT(<<"BEH", ToJson([hist |-> hist, obs |-> ohist])>>) ELSE TRUE
=============================================================================
