------------------------------- MODULE JtProgram -------------------------------
(***************************************************************************)
(* Life-time of checking contexts.  The environment is a nondeterministic   *)
(* PROGRAM: at each step it may call a decorated function of any flavour,   *)
(* enter a `with jaxtyped("context")` block, perform a manual isinstance,   *)
(* return, raise an Exception or a BaseException (caught by the nearest     *)
(* enclosing call that was made inside a matching try/except), create a     *)
(* generator from a decorated generator function, or resume one.            *)
(*                                                                         *)
(* stack  : the thread's context stack; a context is [a, arg]:               *)
(*          a   = size bound to the axis name "a" (0 = unbound)              *)
(*          arg = value of the call's argument n (0 = the context has none)  *)
(* frames : open calls / blocks, innermost last: [kind, catches, base]       *)
(*          kind = "fn" (a call of any flavour) or "ctx" (a context block)   *)
(*          base = Len(stack) when the frame was entered                     *)
(* gens   : live generators, oldest first: k > 0 created and not yet started  *)
(*          (k = their argument size), -k started and suspended at a yield   *)
(* obs    : what the program can observe after the step                      *)
(* hist   : the program so far (for replay into the implementation)          *)
(*                                                                         *)
(* PopDiscipline = "finally"           what the code does                    *)
(*               = "except_exception"  pop only on return / Exception (the   *)
(*                                     broken variant: TLC must refute)      *)
(***************************************************************************)
EXTENDS Integers, Sequences, FiniteSets, TLC

CONSTANTS PopDiscipline, MaxFrames, MaxSteps, MaxGens

\* jaxtyped(typechecker=tc), jaxtyped(tc(f)), typechecker=None, jaxtyped(typechecker=tc) on a function
\* with no annotation at all (still a call: still its own context), context block
\* "bare0": the same with no parameter at all
Kinds == {"new", "old", "none", "bare", "bare0", "ctx"}
Catches == {"no", "exc", "base"}
Sizes == 1..2

Ctx(a, arg) == [a |-> a, arg |-> arg]

VARIABLES stack, frames, gens, obs, hist
vars == <<stack, frames, gens, obs, hist>>
Top == stack[Len(stack)]

Obs(res) == [depth |-> Len(stack'), a |-> IF stack' = << >> THEN 0 ELSE stack'[Len(stack')].a, res |-> res]
Act(a) == hist' = Append(hist, a)

Init == stack = << >> /\ frames = << >> /\ gens = << >> /\ obs = [depth |-> 0, a |-> 0, res |-> "init"] /\ hist = << >>

CanStep == Len(hist) < MaxSteps

\* ---- a well-typed call: f(n = k, x = zeros(k)) with x: Float[.., "a"]; the body then runs
Call(kind, c, k) ==
  /\ CanStep /\ kind # "ctx" /\ Len(frames) < MaxFrames /\ (kind = "bare0" => k = 1)
  /\ stack' = Append(stack, Ctx(IF kind \in {"none", "bare", "bare0"} THEN 0 ELSE k,      \* the parameter check binds a = k
                                IF kind = "bare0" THEN 0 ELSE k))
  \* the flavour of the decorator plays no part in the life-time of the context: the frame only remembers "fn"
  /\ frames' = Append(frames, [kind |-> "fn", catches |-> c, base |-> Len(stack)])
  /\ UNCHANGED gens /\ obs' = Obs("entered") /\ Act([op |-> "call", kind |-> kind, catches |-> c, k |-> k])

\* ---- an ill-typed call of a checked flavour: rejected before the body runs; the error propagates
\* to the caller like any other Exception
RECURSIVE UnwindTo(_, _, _)
\* frames popped from the top until (and including) the first one that catches cls; returns the new
\* [stack, frames, caught]
UnwindTo(st, fr, cls) ==
  IF fr = << >> THEN [stack |-> st, frames |-> fr, caught |-> "toplevel"]
  ELSE LET f == fr[Len(fr)]
           popped == IF PopDiscipline = "finally" \/ cls = "Exception"
                     THEN SubSeq(st, 1, f.base) ELSE st              \* broken variant: no pop
           covers == (f.catches = "base") \/ (f.catches = "exc" /\ cls = "Exception")
       IN IF covers THEN [stack |-> popped, frames |-> SubSeq(fr, 1, Len(fr) - 1), caught |-> "caught"]
          ELSE UnwindTo(popped, SubSeq(fr, 1, Len(fr) - 1), cls)

Propagate(cls, res, a) ==
  LET u == UnwindTo(stack, frames, cls) IN
  /\ stack' = u.stack /\ frames' = u.frames /\ UNCHANGED gens
  /\ obs' = Obs(res) /\ Act(a)

BadCall(kind, c) ==
  /\ CanStep /\ kind \in {"new", "old"}
  \* push, failed parameter check, pop - then the TypeCheckError travels: first through the try/except
  \* around this very call (catches c), then outwards
  /\ IF c \in {"exc", "base"}
     THEN /\ UNCHANGED <<stack, frames, gens>> /\ obs' = Obs("rejected-caught")
          /\ Act([op |-> "badcall", kind |-> kind, catches |-> c])
     ELSE Propagate("Exception", "rejected", [op |-> "badcall", kind |-> kind, catches |-> c])

\* ---- construction of a jaxtyped dataclass D(n=k, x=zeros(k)): __init__ is the decorated function; its context
\* lives for the construction only.  An ill-typed construction raises like an ill-typed call.
MakeDC(k) ==
  /\ CanStep
  /\ UNCHANGED <<stack, frames, gens>> /\ obs' = Obs("constructed") /\ Act([op |-> "makedc", k |-> k])
BadDC(c) ==
  /\ CanStep
  /\ IF c \in {"exc", "base"}
     THEN /\ UNCHANGED <<stack, frames, gens>> /\ obs' = Obs("rejected-caught") /\ Act([op |-> "baddc", catches |-> c])
     ELSE Propagate("Exception", "rejected", [op |-> "baddc", catches |-> c])

EnterCtx ==
  /\ CanStep /\ Len(frames) < MaxFrames
  /\ stack' = Append(stack, Ctx(0, 0))
  /\ frames' = Append(frames, [kind |-> "ctx", catches |-> "no", base |-> Len(stack)])
  /\ UNCHANGED gens /\ obs' = Obs("entered") /\ Act([op |-> "enterctx"])

\* ---- manual isinstance(zeros(k), Float[.., "a"]) in the current context
CheckRes(k) == IF stack = << >> THEN "T" ELSE IF Top.a = 0 \/ Top.a = k THEN "T" ELSE "F"
Check(k) ==
  /\ CanStep
  /\ stack' = IF stack # << >> /\ Top.a = 0 THEN [stack EXCEPT ![Len(stack)].a = k] ELSE stack
  /\ UNCHANGED <<frames, gens>> /\ obs' = Obs(CheckRes(k)) /\ Act([op |-> "check", k |-> k])

\* ---- isinstance(zeros(k), Float[.., "{n}"]): only the current call's own argument is visible
ArgCheck(k) ==
  /\ CanStep
  /\ UNCHANGED <<stack, frames, gens>>
  /\ obs' = Obs(IF stack = << >> \/ Top.arg = 0 THEN "E" ELSE IF Top.arg = k THEN "T" ELSE "F")
  /\ Act([op |-> "argcheck", k |-> k])

Return ==
  /\ CanStep /\ frames # << >>
  /\ stack' = SubSeq(stack, 1, frames[Len(frames)].base)
  /\ frames' = SubSeq(frames, 1, Len(frames) - 1)
  /\ UNCHANGED gens /\ obs' = Obs("returned") /\ Act([op |-> "return"])

Raise(cls) ==
  /\ CanStep /\ frames # << >>
  /\ Propagate(cls, "raised", [op |-> "raise", cls |-> cls])

\* ---- a decorated GENERATOR function is called: the wrapper binds, pushes, checks, calls (which only
\* creates the generator) and pops - no context stays open
MakeGen(kind, k) ==
  /\ CanStep /\ kind # "ctx" /\ Len(gens) < MaxGens
  /\ gens' = Append(gens, k)
  /\ UNCHANGED <<stack, frames>> /\ obs' = Obs("generator") /\ Act([op |-> "makegen", kind |-> kind, k |-> k])

\* ---- the oldest generator that has not been started yet is started: its body performs a manual check of
\* size k in whatever context is current NOW (it belongs to the resuming frame), then it stays SUSPENDED at its
\* yield - and a suspended generator holds no context open: whatever the consumer does next is unaffected
Unstarted == {i \in DOMAIN gens : gens[i] > 0}
Suspended == {i \in DOMAIN gens : gens[i] < 0}
MinOf(S) == CHOOSE i \in S : \A j \in S : i <= j
GenNext ==
  /\ CanStep /\ Unstarted # {}
  /\ LET i == MinOf(Unstarted)  k == gens[i] IN
     /\ stack' = IF stack # << >> /\ Top.a = 0 THEN [stack EXCEPT ![Len(stack)].a = k] ELSE stack
     /\ obs' = Obs(CheckRes(k))
     /\ gens' = [gens EXCEPT ![i] = -k]
  /\ UNCHANGED frames /\ Act([op |-> "gennext"])
\* ---- the oldest suspended generator is closed
GenClose ==
  /\ CanStep /\ Suspended # {}
  /\ LET i == MinOf(Suspended) IN gens' = [j \in 1..(Len(gens) - 1) |-> IF j < i THEN gens[j] ELSE gens[j + 1]]
  /\ UNCHANGED <<stack, frames>> /\ obs' = Obs("closed") /\ Act([op |-> "genclose"])

Next == \/ \E kind \in Kinds \ {"ctx"}, c \in Catches, k \in Sizes : Call(kind, c, k)
        \/ \E kind \in {"new", "old"}, c \in Catches : BadCall(kind, c)
        \/ EnterCtx \/ Return
        \/ (\E k \in Sizes : MakeDC(k)) \/ (\E c \in Catches : BadDC(c))
        \/ \E k \in Sizes : Check(k) \/ ArgCheck(k)
        \/ \E cls \in {"Exception", "BaseException"} : Raise(cls)
        \/ \E kind \in {"new", "none"}, k \in Sizes : MakeGen(kind, k)
        \/ GenNext \/ GenClose
Spec == Init /\ [][Next]_vars

View == <<stack, frames, gens, obs>>

(* ------------------------------ theorems ------------------------------ *)
\* every open frame owns exactly one context: its own
Balanced == /\ Len(stack) = Len(frames)
            /\ \A i \in DOMAIN frames : frames[i].base = i - 1
\* outside every context checks are stateless
TopLevelEmpty == frames = << >> => stack = << >>
\* a frame's exit restores the caller's bindings exactly (action property)
CallerUntouched == [][\A i \in DOMAIN stack : (i <= Len(stack') /\ i < Len(stack)) => stack'[i] = stack[i]]_vars
\* {arguments} are those of the innermost call
ArgsOfInnermost == \A i \in DOMAIN frames : frames[i].kind = "ctx" => stack[i].arg = 0
=============================================================================
