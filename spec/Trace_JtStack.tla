------------------------------ MODULE Trace_JtStack ------------------------------
(***************************************************************************)
(* code -> spec: the push / pop events of the checking-context stack that   *)
(* were recorded while the repository's own test-suite ran, validated       *)
(* against the life-time discipline of JtProgram: every thread's stack      *)
(* grows and shrinks by exactly one per event, never below zero, and when a *)
(* test has finished nothing is left: depth 0 in every thread that took     *)
(* part, no flatten mode, no leaf position.                                  *)
(***************************************************************************)
EXTENDS Integers, Sequences, TLC, Json, IOUtils, TLCExt
Log == ndJsonDeserialize(IOEnv.VERIF_ROWS)
VARIABLES depth, l
vars == <<depth, l>>
D(t) == IF t \in DOMAIN depth THEN depth[t] ELSE 0
Set(t, v) == [x \in DOMAIN depth \cup {t} |-> IF x = t THEN v ELSE depth[x]]
TInit == depth = [x \in {} |-> 0] /\ l = 1
Push == /\ l <= Len(Log) /\ Log[l].ev = "push"
        /\ Log[l].depth = D(Log[l].th) + 1
        /\ depth' = Set(Log[l].th, Log[l].depth) /\ l' = l + 1
Pop == /\ l <= Len(Log) /\ Log[l].ev = "pop"
       /\ D(Log[l].th) >= 1 /\ Log[l].depth = D(Log[l].th) - 1
       /\ depth' = Set(Log[l].th, Log[l].depth) /\ l' = l + 1
TestEnd == /\ l <= Len(Log) /\ Log[l].ev = "test_end"
           /\ Log[l].depth = 0 /\ ~Log[l].flatten /\ ~Log[l].label
           /\ \A t \in DOMAIN depth : depth[t] = 0
           /\ UNCHANGED depth /\ l' = l + 1
TNext == Push \/ Pop \/ TestEnd
TSpec == TInit /\ [][TNext]_vars
Progress == TLCSet(1, l)
Accepted == IF TLCGet(1) = Len(Log) + 1 THEN PrintT(<<"ACCEPTED", Len(Log)>>)
            ELSE PrintT(<<"REJECTED", TLCGet(1), ToJson(Log[TLCGet(1)])>>)
=============================================================================
