------------------------------ MODULE JtCallShape ------------------------------
(***************************************************************************)
(* C07: what a call of a decorated function must look like from outside.    *)
(* sig : which of the five parameter kinds are present (at most one each)   *)
(*       po positional-only, pk positional-or-keyword, va *args,            *)
(*       ko keyword-only, vk **kwargs; dpo/dpk/dko: that parameter has a    *)
(*       default                                                            *)
(* call: npos positional arguments, kws the set of keyword names used,      *)
(*       among {"po","pk","ko","extra"}                                     *)
(* Binds = Python's own binding rule.  A call that does not bind raises the *)
(* ordinary TypeError; one that binds and is well-typed runs the body once  *)
(* with the caller's objects and hands back the body's result object; an    *)
(* ill-typed one raises TypeCheckError without running the body.            *)
(***************************************************************************)
EXTENDS Integers, Sequences, FiniteSets, TLC

Binds(sig, call) ==
  LET npospar == (IF sig.po THEN 1 ELSE 0) + (IF sig.pk THEN 1 ELSE 0)
      poFilled == sig.po /\ call.npos >= 1
      pkPos == sig.pk /\ call.npos >= (IF sig.po THEN 2 ELSE 1)
      pkKw == "pk" \in call.kws
      koKw == "ko" \in call.kws
  IN /\ (call.npos > npospar => sig.va)                      \* surplus positionals need *args
     /\ (pkKw => (IF sig.pk THEN ~pkPos ELSE sig.vk))        \* no multiple values; unknown names need **kwargs
     /\ (koKw => sig.ko \/ sig.vk)
     /\ ("po" \in call.kws => sig.vk)                        \* a positional-only name as keyword lands in **kwargs
     /\ ("extra" \in call.kws => sig.vk)
     /\ (sig.po => poFilled \/ sig.dpo)
     /\ (sig.pk => pkPos \/ pkKw \/ sig.dpk)
     /\ (sig.ko => koKw \/ sig.dko)

\* the switch: booleans and the strings 0/1/true/false in any case; anything else is a ValueError
SwitchOn  == {"1", "true", "TRUE", "True", "tRuE", "bool:True"}
SwitchOff == {"0", "false", "FALSE", "False", "fAlSe", "bool:False"}
ParseSwitch(v) == IF v \in SwitchOn THEN "on" ELSE IF v \in SwitchOff THEN "off" ELSE "ValueError"

Expected(sig, call, typed, flavour) ==
  IF flavour = "disabled" THEN (IF Binds(sig, call) THEN [outcome |-> "ok", bodyruns |-> 1] ELSE [outcome |-> "TypeError", bodyruns |-> 0])
  ELSE IF ~Binds(sig, call) THEN [outcome |-> "TypeError", bodyruns |-> 0]
  ELSE IF typed = "ill" THEN [outcome |-> "TCE", bodyruns |-> 0]
  ELSE [outcome |-> "ok", bodyruns |-> 1]
=============================================================================
