------------------------------- MODULE JtPyTree -------------------------------
(***************************************************************************)
(* PyTrees, structures and the `isinstance(x, PyTree[L, "struct"])` check.  *)
(*                                                                         *)
(* Tree      [k, c, keys, shape, dt]                                        *)
(*   containers: k \in {"tuple","list","dict","nt","cust","acust","none"}, c = the *)
(*               "acust" is a registered node that is ALSO array-like (it has *)
(*               .shape = (2,) and a float .dtype, e.g. a sparse-array wrapper): *)
(*               for an array leaf type over `Any` it is a leaf, for every     *)
(*               other leaf type it is a container                             *)
(*               ("nt" = a namedtuple: it IS a tuple for tuple[...] hints)  *)
(*               children (dict: in sorted key order, keys = the keys)      *)
(*   atoms:      k \in {"int","str","flt","arr"} (arr: shape, dt \in {"f","i"}) *)
(*               "flt" is a float EQUAL to the int atom (7.0 == 7, same hash)  *)
(* Structure [k, c, keys] with k = "*" at the leaves.                       *)
(* Leaf type L (tuples): <<"int">> <<"str">> <<"tup2">> (tuple[int,int])    *)
(*   <<"any">> <<"arr", toks, cat>> <<"union", L1, L2>> <<"tupA", L>>        *)
(*   <<"union|", L1, L2>> is the same union written `L1 | L2` (PEP 604): the  *)
(*   spelling has no meaning                                                   *)
(*   (tuple[L, int]) <<"pt", L>> (PyTree[L]) <<"ptS", L, S>> (PyTree[L,S])   *)
(* Structure spec S: NoStruct or [pieces |-> <<names>>, dots |-> "none" |    *)
(*   "post" ("T ...") | "pre" ("... T"), str |-> the string as written].     *)
(* Context: [single, variadic, pytree].                                      *)
(***************************************************************************)
EXTENDS JtArray

PMemo(s, v, p) == [single |-> s, variadic |-> v, pytree |-> p]
EmptyPMemo == PMemo(EmptyFn, EmptyFn, EmptyFn)
ArrPart(m) == Memo(m.single, m.variadic)
WithArr(m, am) == PMemo(am.single, am.variadic, m.pytree)

Node(k, c, keys) == [k |-> k, c |-> c, keys |-> keys, shape |-> << >>, dt |-> ""]
IntAtom == Node("int", << >>, << >>)
StrAtom == Node("str", << >>, << >>)
FltAtom == Node("flt", << >>, << >>)
ArrAtom(shape, dt) == [k |-> "arr", c |-> << >>, keys |-> << >>, shape |-> shape, dt |-> dt]
NoneNode == Node("none", << >>, << >>)
IsAtom(x) == x.k \in {"int", "str", "flt", "arr"}

Star == [k |-> "*", c |-> << >>, keys |-> << >>]
SNode(k, c, keys) == [k |-> k, c |-> c, keys |-> keys]

NoStruct == [pieces |-> << >>, dots |-> "none", str |-> ""]
IsNoStruct(S) == S.pieces = << >>

LabelOf(i, S) == "<" \o ToString(i) \o "|" \o S.str \o ">"

RECURSIVE Flat(_)
Flat(ss) == IF ss = << >> THEN << >> ELSE Head(ss) \o Flat(Tail(ss))

(* ---- JAX's own flattening (leaf type Any): every atom is a leaf ---- *)
RECURSIVE JaxFlatten(_)
JaxFlatten(x) ==
  IF IsAtom(x) THEN [leaves |-> <<x>>, struct |-> Star]
  ELSE LET subs == [i \in DOMAIN x.c |-> JaxFlatten(x.c[i])] IN
       [leaves |-> Flat([i \in DOMAIN x.c |-> subs[i].leaves]),
        struct |-> SNode(x.k, [i \in DOMAIN x.c |-> subs[i].struct], x.keys)]

DtIn(cat, dt) == cat = "s" \/ cat = dt
\* an array leaf type is <<"arr", dims, category>> over a concrete array class, or <<"arr", dims, category, "any">> over Any
OverAny(L) == Len(L) >= 4 /\ L[4] = "any"
IsArrayLike(L, x) == x.k = "arr" \/ (x.k = "acust" /\ OverAny(L))

(* ---- the flatten-mode ("only look at the array type") match ---- *)
RECURSIVE TypeMatch(_, _), Discover(_, _)
TypeMatch(L, x) ==
  CASE L[1] = "int" -> x.k = "int"
    [] L[1] = "str" -> x.k = "str"
    [] L[1] = "tup2" -> x.k \in {"tuple", "nt"} /\ Len(x.c) = 2 /\ \A i \in 1..2 : x.c[i].k = "int"
    [] L[1] = "any" -> TRUE
    [] L[1] = "arr" -> IsArrayLike(L, x)
    [] L[1] \in {"union", "union|"} -> TypeMatch(L[2], x) \/ TypeMatch(L[3], x)
    [] L[1] = "tupA" -> x.k \in {"tuple", "nt"} /\ Len(x.c) = 2 /\ TypeMatch(L[2], x.c[1]) /\ x.c[2].k = "int"
    [] L[1] \in {"pt", "ptS"} ->
         x.k = "none" \/ LET d == Discover(L[2], x) IN \A i \in DOMAIN d.leaves : TypeMatch(L[2], d.leaves[i])

(* ---- leaf discovery: any subtree that itself matches L counts as a leaf;  *)
(*      None and empty containers contribute none; other atoms are leaves    *)
(*      (which then fail the full match)                                     *)
Discover(L, x) ==
  IF L[1] = "any" THEN JaxFlatten(x)
  ELSE IF TypeMatch(L, x) THEN [leaves |-> <<x>>, struct |-> Star]
  ELSE IF IsAtom(x) THEN [leaves |-> <<x>>, struct |-> Star]
  ELSE LET subs == [i \in DOMAIN x.c |-> Discover(L, x.c[i])] IN
       [leaves |-> Flat([i \in DOMAIN x.c |-> subs[i].leaves]),
        struct |-> SNode(x.k, [i \in DOMAIN x.c |-> subs[i].struct], x.keys)]

(* ---- the structure algebra ---- *)
RECURSIVE Compose(_, _), IsPrefix(_, _), SuffixOK(_, _)
Compose(s, t) == IF s.k = "*" THEN t ELSE SNode(s.k, [i \in DOMAIN s.c |-> Compose(s.c[i], t)], s.keys)
IsPrefix(p, x) == IF p.k = "*" THEN TRUE
                  ELSE /\ p.k = x.k /\ p.keys = x.keys /\ Len(p.c) = Len(x.c)
                       /\ \A i \in DOMAIN p.c : IsPrefix(p.c[i], x.c[i])
SuffixOK(t, x) == \/ x = t
                  \/ /\ x.k # "*"
                     /\ \A i \in DOMAIN x.c : SuffixOK(t, x.c[i])

RECURSIVE ComposeAll(_, _, _)
ComposeAll(pieces, pm, acc) ==
  IF pieces = << >> THEN acc ELSE ComposeAll(Tail(pieces), pm, Compose(acc, pm[Head(pieces)]))

\* [r, pytree']
StructStep(S, struct, pm) ==
  IF IsNoStruct(S) THEN [r |-> "T", pm |-> pm]
  ELSE IF Len(S.pieces) = 1 /\ S.dots = "none" THEN
       LET n == S.pieces[1] IN
       IF n \notin DOMAIN pm THEN [r |-> "T", pm |-> Bind(pm, n, struct)]
       ELSE [r |-> IF pm[n] = struct THEN "T" ELSE "F", pm |-> pm]
  ELSE IF \E i \in DOMAIN S.pieces : S.pieces[i] \notin DOMAIN pm THEN [r |-> "E", pm |-> pm]
  ELSE LET named == ComposeAll(S.pieces, pm, Star) IN
       [r |-> IF CASE S.dots = "post" -> IsPrefix(named, struct)
                   [] S.dots = "pre" -> SuffixOK(named, struct)
                   [] OTHER -> struct = named
              THEN "T" ELSE "F",
        pm |-> pm]

(* ---- full match of one value against a leaf type, on the LIVE context ----
   returns [r, memo]; array checks restore the context themselves when they
   do not pass, tuple / union members do not (that is the enclosing PyTree's job) *)
RECURSIVE FullMatch(_, _, _, _, _, _), PyTreeCheck(_, _, _, _, _, _, _), LeafLoop(_, _, _, _, _, _, _, _)
FullMatch(L, x, m, args, lab, fl) ==
  CASE L[1] \in {"int", "str", "tup2"} -> [r |-> IF TypeMatch(L, x) THEN "T" ELSE "F", memo |-> m]
    [] L[1] = "any" -> [r |-> "T", memo |-> m]
    [] L[1] = "arr" ->
         IF ~IsArrayLike(L, x) THEN [r |-> "F", memo |-> m]
         ELSE LET c == ArrayCheck(ParseSpec(L[2]).dims, [inst |-> TRUE, dtin |-> DtIn(L[3], x.dt), shape |-> x.shape],
                                  ArrPart(m), args, lab, fl)
              IN [r |-> c.r, memo |-> WithArr(m, c.memo)]
    [] L[1] \in {"union", "union|"} ->
         LET a == FullMatch(L[2], x, m, args, lab, fl) IN
         IF a.r \in {"T", "E"} THEN a ELSE FullMatch(L[3], x, a.memo, args, lab, fl)
    [] L[1] = "tupA" ->
         IF ~(x.k \in {"tuple", "nt"} /\ Len(x.c) = 2) THEN [r |-> "F", memo |-> m]
         ELSE LET a == FullMatch(L[2], x.c[1], m, args, lab, fl) IN
              IF a.r # "T" THEN a ELSE [r |-> IF x.c[2].k = "int" THEN "T" ELSE "F", memo |-> a.memo]
    [] L[1] = "pt" -> PyTreeCheck(L[2], NoStruct, x, m, args, lab, fl)
    [] L[1] = "ptS" -> PyTreeCheck(L[2], L[3], x, m, args, lab, fl)

\* leaves i..n; [r, memo]
LeafLoop(L, S, leaves, i, m, args, lab, fl) ==
  IF i > Len(leaves) THEN [r |-> "T", memo |-> m]
  ELSE IF ~IsNoStruct(S) /\ lab # NoLabel THEN [r |-> "E", memo |-> m]   \* '?' position would be ambiguous
  ELSE LET li == IF IsNoStruct(S) THEN lab ELSE LabelOf(i - 1, S)
           c == FullMatch(L, leaves[i], m, args, li, fl)
       IN IF c.r # "T" THEN c ELSE LeafLoop(L, S, leaves, i + 1, c.memo, args, lab, fl)

\* the whole check: commit on "T", roll back otherwise
PyTreeCheck(L, S, x, m, args, lab, fl) ==
  IF x.k = "none" THEN [r |-> "T", memo |-> m]              \* a top-level None is always accepted
  ELSE LET d == Discover(L, x)
           st == StructStep(S, d.struct, m.pytree)
       IN IF st.r # "T" THEN [r |-> st.r, memo |-> m]
          ELSE LET c == LeafLoop(L, S, d.leaves, 1, [m EXCEPT !.pytree = st.pm], args, lab, fl) IN
               IF c.r = "T" THEN c ELSE [r |-> c.r, memo |-> m]

BarePyTree(x, m) == [r |-> "T", memo |-> m]

(* ---- validity of a structure string: pieces are "id" (identifier), "dots", or "bad" ---- *)
ValidStructPieces(ps) ==
  /\ ps # << >>
  /\ \A i \in DOMAIN ps : ps[i] = "id" \/ (ps[i] = "dots" /\ (i = 1 \/ i = Len(ps)))
\* "preceded or followed by": a string with dots at both ends, or dots alone, is not given a
\* meaning by the documentation - either ValueError or acceptance is allowed there
StructStringAllowed(ps) ==
  IF ~ValidStructPieces(ps) THEN {"ValueError"}
  ELSE IF Cardinality({i \in DOMAIN ps : ps[i] = "dots"}) = 2 \/ \A i \in DOMAIN ps : ps[i] = "dots"
       THEN {"ok", "ValueError"}
  ELSE {"ok"}
=============================================================================
