--------------------------- MODULE Rows_JtCallShape ---------------------------
(* code -> spec for C07 / C19: one row = one call of a generated function, decorated and plain *)
EXTENDS JtCallShape, Json, IOUtils
Rows == ndJsonDeserialize(IOEnv.VERIF_ROWS)
Kws(r) == {r.call.kws[i] : i \in DOMAIN r.call.kws}
CallOf(r) == [npos |-> r.call.npos, kws |-> Kws(r)]
Exp(r) == Expected(r.sig, CallOf(r), r.typed, r.flavour)
RowOK(r) ==
  LET e == Exp(r) IN
  /\ r.res.outcome = e.outcome
  /\ r.res.bodyruns = e.bodyruns
  /\ (e.outcome = "ok") => (r.res.sameargs /\ r.res.sameresult)
  \* the undecorated function agrees about binding (and, when checking is off, about everything)
  /\ (r.plain.outcome = "TypeError") <=> ~Binds(r.sig, CallOf(r))
  /\ (r.flavour = "disabled") => (r.res.outcome = r.plain.outcome /\ r.res.bodyruns = r.plain.bodyruns)
  /\ r.meta_equal
VARIABLES l, nbad
vars == <<l, nbad>>
Init == l = 1 /\ nbad = 0
Next == /\ l <= Len(Rows)
        /\ LET r == Rows[l]  ok == RowOK(r) IN
           /\ (IF ok THEN TRUE ELSE PrintT(<<"MISMATCH", r.id, ToJson([expected |-> Exp(r), binds |-> Binds(r.sig, CallOf(r))])>>))
           /\ nbad' = IF ok THEN nbad ELSE nbad + 1
           /\ (IF l < Len(Rows) THEN TRUE ELSE PrintT(<<"DONE", Len(Rows), nbad'>>))
        /\ l' = l + 1
Spec == Init /\ [][Next]_vars
=============================================================================
