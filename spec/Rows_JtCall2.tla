------------------------------ MODULE Rows_JtCall2 ------------------------------
(* code -> spec: decorated calls whose parameters carry unions / tuples / PyTrees (C13) *)
EXTENDS JtWrapper2, Json, IOUtils
Rows == ndJsonDeserialize(IOEnv.VERIF_ROWS)
Call(r) == [params |-> r.params, vals |-> r.vals, hasret |-> r.hasret, rethint |-> r.rethint, retval |-> r.retval, args |-> r.args]
SetOf(s) == {s[i] : i \in DOMAIN s}
VariantOK(v, e) ==
  /\ v.outcome = e.outcome
  /\ (e.outcome = "TCE") =>
        /\ v.stage = e.stage
        /\ (e.stage = "params" => v.blamed = e.blamed)
        /\ v.printed.single = Printed2(e.printed).single
        /\ v.printed.variadic = Printed2(e.printed).variadic
        /\ SetOf(v.printed.structs) = Printed2(e.printed).structs
  /\ v.bodyruns = e.bodyruns
Expected(r) == LET e == CallOutcome2(Call(r)) IN
  [outcome |-> e.outcome, stage |-> e.stage, blamed |-> e.blamed, printed |-> Printed2(e.printed), bodyruns |-> e.bodyruns]
RowOK(r) == LET e == CallOutcome2(Call(r)) IN \A i \in DOMAIN r.variants : VariantOK(r.variants[i], e)
VARIABLES l, nbad
vars == <<l, nbad>>
Init == l = 1 /\ nbad = 0
Next == /\ l <= Len(Rows)
        /\ LET r == Rows[l]  ok == RowOK(r) IN
           /\ (IF ok THEN TRUE ELSE PrintT(<<"MISMATCH", r.id, ToJson(Expected(r))>>))
           /\ nbad' = IF ok THEN nbad ELSE nbad + 1
           /\ (IF l < Len(Rows) THEN TRUE ELSE PrintT(<<"DONE", Len(Rows), nbad'>>))
        /\ l' = l + 1
Spec == Init /\ [][Next]_vars
=============================================================================
