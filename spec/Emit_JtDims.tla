----------------------------- MODULE Emit_JtDims -----------------------------
EXTENDS MC_JtDims, Json, IOUtils
SE == INSTANCE SequencesExt
MultiLen == 3
ASSUME JsonSerialize(IOEnv.VERIF_OUT,
         [single |-> SE!SetToSeq(AllToks),
          reduced |-> SE!SetToSeq(Reduced),
          probes |-> Probes, args |-> Args,
          prior |-> Prior, priorq |-> PriorQ])
EmitInit == tok = Tok(<< >>, Base("empty", "", 0, NoExpr))
EmitNext == UNCHANGED tok
=============================================================================
