------------------------------ MODULE Emit_JtCall ------------------------------
(* the annotation alphabet and candidate shapes from which call cases are formed *)
EXTENDS JtWrapper, Json, IOUtils
SE == INSTANCE SequencesExt
B(k, nm, v, e) == Base(k, nm, v, e)
I(n) == Tok(<< >>, B("ident", n, 0, NoExpr))
HI(n) == Tok(<<"#">>, B("ident", n, 0, NoExpr))
F(k) == Tok(<< >>, B("int", "", k, NoExpr))
V(n) == Tok(<<"*">>, B("ident", n, 0, NoExpr))
HV(n) == Tok(<<"#", "*">>, B("ident", n, 0, NoExpr))
Dots == Tok(<< >>, B("dots", "", 0, NoExpr))
Und == Tok(<<"_">>, B("empty", "", 0, NoExpr))
SymT(e) == Tok(<< >>, B("sym", "", 0, e))
Alphabet == << <<I("a")>>, <<I("b")>>, <<I("a"), I("b")>>, <<I("b"), I("a")>>, <<I("a"), I("a")>>,
               <<HI("a")>>, <<HI("a"), I("b")>>, <<F(2)>>, <<F(2), I("a")>>, <<V("v")>>, <<V("v"), I("a")>>,
               <<HV("v")>>, <<I("a"), V("v")>>, <<Dots, I("b")>>, <<Und, I("a")>>, << >>,
               <<HV("v"), I("b")>>,
               \* a variadic axis with the NAME of a single axis: two different axes (two namespaces)
               <<V("a")>>, <<V("a"), I("a")>>, <<I("b"), V("b")>>,
               \* a multi-axis specifier in the MIDDLE (prefix and suffix are matched from both ends)
               <<I("a"), V("v"), I("b")>>, <<I("a"), Dots, I("a")>>, <<F(2), HV("v"), I("a")>> >>
\* symbolic annotations (only used where the names they use are bound earlier)
SymAlphabet == << <<SymT(<<"+", <<"n", "a">>, <<"i", 1>>>>)>>, <<SymT(<<"*", <<"n", "a">>, <<"n", "b">>>>)>>,
                  <<I("a"), SymT(<<"-", <<"n", "a">>, <<"i", 1>>>>)>>, <<SymT(<<"a", "n">>)>>,
                  \* true division: a value that is not integral matches no size
                  <<SymT(<<"/", <<"n", "a">>, <<"i", 2>>>>)>>, <<SymT(<<"/", <<"+", <<"n", "a">>, <<"n", "b">>>>, <<"i", 2>>>>)>> >>
Shapes == << << >>, <<1>>, <<2>>, <<3>>, <<2, 3>>, <<3, 2>>, <<2, 2>>, <<1, 3>>, <<2, 1>>, <<3, 3>>, <<2, 3, 2>>, <<1, 2, 3>> >>
ASSUME JsonSerialize(IOEnv.VERIF_OUT, [alphabet |-> Alphabet, sym |-> SymAlphabet, shapes |-> Shapes])
VARIABLE x
EmitInit == x = 0
EmitNext == UNCHANGED x
=============================================================================
