#!/usr/bin/env python3
"""Regenerates /verif/MANIFEST.json from the table below (kept next to the code so that the
manifest can never drift from what ./check implements)."""
import json, os
HERE = os.path.dirname(os.path.dirname(os.path.abspath(__file__)))
BASE = "cd /repo && /venv/bin/python -m pytest -ra -q -p no:cacheprovider --timeout=900 --continue-on-collection-errors"

CHECKS = {
 "C01": dict(cat="model_checking", sec="5 C01",
   tech="TLA+ spec JtArray/JtDims; TLC exhaustive depth-1 transition table (all context states x annotations x shapes) with theorems; every row executed on the code and re-decided by TLC (trace validation of rows); random multi-step histories validated the same way",
   text="TLC enumerates every (context state, annotation, shape) of a bounded universe and checks Rollback/Frame/Idempotent/InAllowed on the specification; each of those rows is executed on the real isinstance and the observed verdict and post-context are re-decided by TLC with the same operators; random histories reach 5 axes / 4 names / 11 symbolic expressions.",
   note="Exhaustive only within the stated constants (sizes 0..2(3), <=2(3) tokens, one or two names). Trusted: TLC, the JSON bridge, the renderer of tokens to strings, numpy. Observation of the context uses jaxtyping._storage.get_shape_memo when present."),
 "C14": dict(cat="model_checking", sec="5 C14",
   tech="TLA+ spec JtDims (ParseTok/ParseSpec as a function of the modifier SET); TLC checks totality/order-freedom/'=' neutrality over all tokens of <=4 modifier characters; every token and every short token sequence is built for real and its acceptance vector over 15 probe shapes is re-decided by TLC",
   text="All 6.2k tokens (every order, repeats included) and all sequences of <=3 (quick) / 4 (thorough) tokens from an 11-token alphabet, rendered with random whitespace: exception type at construction and meaning (acceptance vector under fixed prior bindings, '?' tokens probed inside a one-leaf structured PyTree) must be what the specification allows.",
   note="Meaning is compared through 15 probe shapes under one prior context, not symbolically. Forms the documentation leaves open (empty base without '_', 'name=...') are allowed to build or to raise ValueError."),
 "C04": dict(cat="model_checking", sec="5 C04",
   tech="TLA+ spec JtCheckFine (interruptible walk with Commit/Rollback and fault actions; broken rollback modes refuted by TLC) + JtArray; rows with faults injected at every call-out position executed on the code and re-decided by TLC (Rows_JtFault)",
   text="TLC proves NothingBoundOnFailure on the interruptible-walk model for every (context, annotation, shape, fault position, exception class) of the bounded universe and refutes it for the two broken rollback modes; every row is executed on the real isinstance - plain, with an Exception/BaseException injected at the k-th .shape access or {arg}.__format__, repeated when it passed, followed by probe checks after a failure, flat and nested spellings - and TLC re-decides verdict, post-context, idempotence and probes.",
   note="Call-outs considered: .shape accesses and __format__ of {args}. The PyTree half (k-th leaf, structure names) is bound through harness/pytree_rows when present. Exhaustive within the stated constants only."),
 "C08": dict(cat="model_checking", sec="5 C08",
   tech="TLA+ spec JtPyTree (leaf discovery, shared context, union/tuple/nested-PyTree leaf types, commit/rollback); TLC exhaustive depth-1 table over all trees of depth<=2 with theorems (NestEquiv, NoneAccepted, Rollback, Idempotent, Monotone); every row executed on the code and re-decided by TLC; random deep trees validated the same way",
   text="All trees of depth<=2/width<=2 over the stated node kinds and atoms x 11 leaf types x {PyTree[L], PyTree[L,'T']} x 3 contexts: verdict and resulting bindings (axes, *variadics, structure names) of the real isinstance must equal the specification's; random trees of depth<=4 over tuples, lists, dicts, None, namedtuples and a registered node, and bare PyTree.",
   note="Leaf types are a finite catalogue; structured inner PyTrees as leaf types excluded. Trusted: jax.tree_util for abstracting real structures, TLC, renderers."),
 "C09": dict(cat="model_checking", sec="5 C09",
   tech="TLA+ spec JtPyTree (StructStep: bind / equal / compose / prefix / suffix; StructStringAllowed); TLC exhaustive (t,s,x,form) table with the declarative reading FormMeaning as a theorem; every row executed on the code after binding T,S by accepted checks and re-decided by TLC",
   text="For every t,s of depth<=1 (or unbound), every candidate x of depth<=2 and all 7 forms, the real verdict (True/False/AnnotationError) and post-context must equal the specification's; all structure strings of <=3 pieces over {identifier, '...', non-identifier} and non-strings must raise ValueError exactly where the specification says; first-use binding checked under leaf types that roll back.",
   note="T and S range over depth<=1 trees only. '...' at both ends / alone is treated as unspecified (D11 not claimed)."),
 "C16": dict(cat="model_checking", sec="5 C16",
   tech="TLA+ spec JtPyTree/JtArray (per-leaf keys LabelOf(i,S) o name, label inheritance through structure-less PyTrees, AnnotationError outside / under two structured PyTrees); TLC exhaustive depth-1 table from contexts in which an earlier tree bound T and per-leaf sizes; rows executed on the code and re-decided by TLC",
   text="Second and later trees are checked in contexts where T=(*,*) and per-leaf '?a' / '*?v' values (and a plain a) are already bound: same position must agree, different positions are independent, plain axes do not interact, '?' in unions / tuples / structure-less PyTrees / nested annotation spellings is usable under exactly one structured PyTree, AnnotationError outside and beneath two structured PyTrees.",
   note="Manual isinstance route only (decorated-call route is exercised by C02/C13 harness). Per-leaf keys are abstracted from storage keys by a regular expression."),
 "C02": dict(cat="model_checking", sec="5 C02",
   tech="TLA+ specs JtArray (GreedyIsSat/SolsStep inductive theorems checked by TLC over all context states) and JtWrapper (CallOutcome = fold of checks; CallOrderFree evaluated by TLC on every case); real decorated functions executed in all variants and each variant compared with the TLC-decided outcome (Rows_JtCall)",
   text="TLC proves on the bounded universe that the greedy walk accepts iff the filtered solution set is non-empty and that the new context denotes exactly that set (inductive step => acceptance of a call == satisfiability => order independence); random signatures of 1..5 parameters are executed under both typecheckers, both decorator spellings, def/dataclass, admissible permutations and positional/keyword/reversed-keyword passing, with sibling calls reusing functions and array objects; TLC decides the single allowed outcome per case.",
   note="Unions excluded. Permutations only for signatures without symbolic parameters. Cases are sampled (seeded), the TLC theorem is exhaustive within its constants."),
 "C13": dict(cat="model_checking", sec="5 C13",
   tech="TLA+ spec JtWrapper.CallOutcome (stage, blamed = first failing parameter in declared order given its predecessors, printed = bindings in force at detection) decided by TLC for every executed failing call; message parsed and compared field by field",
   text="Every generated ill-typed call (failure at any parameter or at the return value, unresolvable symbolic axes -> AnnotationError) is executed with both typecheckers, three passing styles, as dataclass, and with both values of the remove-typechecker-stack switch; stage sentence, function, blamed parameter, exactly the printed bindings, __cause__ presence and 'AnnotationError never converted' are compared with the specification by TLC.",
   note="Unions and PyTree-annotated parameters are not generated. Message parsed by regular expressions on its documented sentences."),
 "C17": dict(cat="model_checking", sec="5 C17",
   tech="one TLC-decided verdict per case (JtWrapper over JtArray, which takes only type kind, dtype, shape) is the oracle for the eager and every traced execution; eager x2 value seeds, jit, eval_shape, vmap (3 in_axes forms), jit(vmap), grad",
   text="For each generated decorated function over jax.Array the accept/reject outcome under jit / vmap / grad / eval_shape / compositions must equal the eager outcome on concrete arrays with two different value seeds, and both must equal the outcome TLC computes from shapes alone; array objects are reused across calls and sibling calls interleaved so that value- or identity-based shortcuts surface.",
   note="Sampled cases (seeded). JAX 0.6.2 CPU only."),
 "C05": dict(cat="model_checking", sec="5 C05",
   tech="TLA+ state machine JtProgram (context stack, frames, pending generators; actions call/badcall/enterctx/check/argcheck/return/raise/makegen/gennext) explored exhaustively by TLC with invariants Balanced, TopLevelEmpty, ArgsOfInnermost and action property CallerUntouched; broken pop discipline refuted; every behaviour of N actions and simulated long behaviours replayed on the code by a script interpreter; recorded executions validated by Trace_JtProgram",
   text="TLC explores every program (1.2M distinct states) over decorated calls of every flavour (new-style, old-style, typechecker=None), context blocks, manual checks, {arg} checks, return, Exception/BaseException under every catching discipline, generator creation and resumption, 3 frames deep; all 37k behaviours of 3 actions (1.2M of 4 in the thorough tier) and simulated behaviours of 12 actions are executed for real and the stack depth, axis binding and verdict after every action compared with the specification; the logged executions are additionally accepted line by line by the trace specification.",
   note="One axis name, sizes 1..2. Dataclass __init__ and methods are exercised by the C02/C13 harness, not here. Coroutines excluded (known finding D8)."),
 "C06": dict(cat="model_checking", sec="5 C06",
   tech="TLA+ state machine JtThreads at storage-access granularity (cells tagged with their last writer; Isolation invariant; shared-storage variant refuted by TLC); TLC enumerates all interleavings with a bounded number of preemptions of the access sequences recorded from the real workloads; each schedule replayed with real threads by a forced scheduler (sys.settrace yield points)",
   text="For 2 and 3 threads running decorated calls, context blocks, array checks with variadics, structured PyTree checks with '?' axes, failing checks with rollback and context-free checks, TLC enumerates the interleavings of their storage accesses (plus every call into the check code as a pure preemption point) with <=1..3 preemptions; each schedule is forced on real threads and every thread must produce exactly the verdicts and print_bindings transcripts of its solo run.",
   note="Yield points: calls into _storage.py and into _array_types.py/_pytree_type.py. Schedules are sampled down to 1200 per workload pair in the quick tier. Preemption-bounded, not all interleavings."),
 "C12": dict(cat="model_checking", sec="5 C12",
   tech="TLA+ state machine JtFlags (PyTree check at call-out granularity with the flatten / leaf-position flags, nesting, fault action at every call-out; Quiescent, LabelIsInnermostStructured, FlattenStaysOn; no-finally variant refuted by TLC); fault-injected operation histories on the real code followed by a probe battery whose expected verdicts TLC computes from the specification (Rows_JtArray / Rows_JtPyTree)",
   text="19 operations (array checks with raising .shape/.dtype/__format__, PyTree checks with raising tree_flatten / leaf __instancecheck__ / unsortable dict keys, '?' leaves, nested PyTrees, decorated calls whose body / typechecker / __post_init__ raises, ill-typed calls, decoration sharing an annotation object, pickling, hook install/uninstall) are run with one fault (Exception or BaseException) at each call-out position 1..8, alone and in random histories of 2-3; after every history 11 probe checks (wrong dtype, wrong rank, non-array, '?' outside a PyTree, the shared annotation, checks in a fresh context, PyTree leaves) must give the verdict the specification computes for an empty context, top-level bindings must be empty, the stack empty and both flags reset.",
   note="Known finding D9 (old-style generator decoration makes the shared annotation transparent) is listed in known_findings.json and reported as KNOWN-FINDING. Histories are attributed per worker process with fresh annotation objects per history."),
 "C07": dict(cat="model_checking", sec="5 C07",
   tech="TLA+ spec JtCallShape (Python's argument binding rule as operator Binds over the five parameter kinds; Expected outcome / body-run count); TLC enumerates every signature shape x call shape; functions generated from source (def / async def / lambda, colliding parameter names), decorated and compared with the undecorated function; TLC re-decides each row (Rows_JtCallShape); metadata and descriptor kinds compared directly",
   text="For every (signature shape over the five parameter kinds with defaults on/off, call shape with 0..3 positionals and any subset of keyword names): a non-binding call must raise the ordinary TypeError, a well-typed binding call must run the body exactly once with the very same argument objects and return the very same result object, an ill-typed one must raise TypeCheckError without running the body; __name__/__qualname__/__doc__/__module__/signature and descriptor kinds (method, classmethod, staticmethod, property) must be preserved.",
   note="Known findings D8 (coroutine function with return annotation) and D14 (positional-only name passed as keyword into **kwargs: inspect.Signature.bind limitation) are listed in known_findings.json. *args/**kwargs are not annotated. Quick tier samples 5000 of the 28k pairs."),
 "C19": dict(cat="model_checking", sec="5 C19",
   tech="TLA+ state machine JtSwitch (switch updates with every spelling, decoration at any time, no_type_check above/below, calls) explored by TLC with DisabledIsPlain; all behaviours of 4 actions replayed in-process; JtCallShape rows with the switch on compared with the undecorated function by TLC; every spelling also via JAXTYPING_DISABLE in sub-processes",
   text="All 83k sequences of 4 actions over {config.update with 12 spellings incl. invalid ones, decorate plain / no_type_check above / below, call well- / ill-typed} must produce the outcomes of the specification (ValueError for invalid spellings without changing the switch, no TypeCheckError while disabled or under no_type_check, checking restored after re-enabling without re-decoration); with the switch on, every signature x call shape row, ill-typed ones included, must equal the undecorated function in outcome and body runs; the environment variable is exercised in sub-processes with 13 spellings.",
   note="Hooked-module variant is not replayed separately (hooked functions are ordinary jaxtyped functions; C11 covers instrumentation)."),
 "C11": dict(cat="model_checking", sec="5 C11",
   tech="TLA+ state machine JtHookScope (module names as segment sequences, metaPath with most recent hook first, first-time imports with parents and nested imports; Sticky / NoHookPlain / PrefixIsNotBeneath) explored by TLC; behaviours replayed in-process on a generated package tree with spy typecheckers",
   text="All sequences of 3 actions, a seeded sample of 6000 of the 298k sequences of 4 actions (all in the thorough tier) and simulated sequences of 8 actions over install (7 name sets x checkers A, B, None), uninstall and import (8 modules: nested packages, siblings sharing string prefixes, modules importing each other) are executed for real; for every module an import loads, who instrumented it (recorded by the spy checkers), whether ill-typed calls are rejected and whether methods are wrapped must equal the specification.",
   note="API route only; the pytest option and the IPython magic reuse the same finder / transformer and are not driven separately."),
 "C18": dict(cat="model_checking", sec="5 C18",
   tech="TLA+ state machine JtHookCache (persistent source versions and per-tag caches, runs with hooked set / checker / nested imports / write-suppression / a non-compiling hooked module, edits) with invariants Fresh and CacheTagged proved for the get_code patch scope and refuted by TLC for three broken variants; TLC-simulated histories replayed as sequences of fresh interpreter processes over one directory with real __pycache__ files",
   text="Each replayed history (2 runs over modules A->B, optional source edit, every hooked subset, two checkers or none, import orders incl. nested imports, runs that do not write bytecode, imports of a hooked module that fails to compile) runs every run in its own interpreter; each run reports per module the source version and the instrumentation it actually executed with, which must equal what the specification's Fresh invariant demands.",
   note="300 histories in the quick tier (seeded sample biased to configuration changes); 3 modules / 3 runs in the thorough tier. mtime-based pyc invalidation."),
 "C10": dict(cat="translation_validation", sec="5 C10",
   tech="TLA+ spec JtHookAst.Transform (the only permitted differences, on module skeletons) with theorems checked by TLC on the bounded skeleton universe; translation validation per program: TLC decides Transform(skeleton(original)) = skeleton(transformed), plus strip-and-compare of the full AST incl. every position attribute, compile, compiler flags, docstring, co_firstlineno of functions",
   text="Each program - modules rendered from every TLC-enumerated skeleton (prologues over docstring / constant / __future__ / other statements, forests of def / async def / class nodes with 0..2 decorators wrapped in if / try / with / match, PEP 695 generics) and corpus files (the repository, a seeded sample of 1200 stdlib and site-packages files in the quick tier, all of them in the thorough tier) - is pushed through the real JaxtypingTransformer; TLC validates the skeleton law (one import after docstring and __future__ imports, decorator innermost on every def, outermost on every class, nothing on async defs) and the harness validates that nothing else differs and that the result compiles.",
   note="(ii)-(iv) are Python-side checks; the specification contributes the rule of which differences are permitted and TLC evaluates it on abstractions. The class-body code object of a class with user decorators starts one or more lines later than before (the added outermost decorator carries the class statement's position): outside the property statement, noted in DESIGN.md."),
 "C03": dict(cat="model_checking", sec="5 C03",
   tech="TLA+ spec JtDtypes (the documented category tree by dtype KIND, precision-specific singletons, user categories with exact strings and anchored patterns; lattice identities as ASSUMEs); the finite space of (dtype, category, backend) triples is enumerated completely on the real libraries and TLC decides Accepts for every row (Rows_JtDtypes)",
   text="Every NumPy scalar type incl. platform aliases and every ml_dtypes type, JAX eager arrays, tracers and PRNG keys, TensorFlow dtypes incl. quantised ones, duck arrays with string and torch-style dtypes and a structured dtype are classified by the library's own metadata (never by jaxtyping's tables) and checked against all 34 exported categories; 7 user categories x 12 names; the expected verdict is computed by TLC from the documented hierarchy.",
   note="Finite space, enumerated completely (exhaustive=true). PyTorch / MLX not importable here: torch-style duck array only. Fixed by this work: D10a/b/c (see known_findings.json)."),
 "C15": dict(cat="model_checking", sec="5 C15",
   tech="TLA+ specs JtDtypes (NestOK / NestAccepts = intersection, ScalarSurvives) + JtArray (shape of 's2 s1'); TLC decides construction outcome and the acceptance vector of the documented right-hand side for every ordered category pair x dim-string pair; union / TypeVar / alias laws compared as identities between two really-built annotations",
   text="For all 1156 ordered pairs of exported categories and 10 (quick) / 81 (thorough) dim-string pairs, D2[D1[A,s1],s2] must raise ValueError exactly when the intersection is empty or both parts have a multi-axis specifier and otherwise accept exactly what (D1 intersect D2)[A,'s2 s1'] accepts on 45 (dtype, shape) probes, also three levels deep; Python scalar types survive exactly per ScalarSurvives; 60+ union / X|Y / TypeVar (bound, constraints, free) / Scalar / ScalarLike / PRNGKeyArray identities hold on 20 probe values.",
   note="Meaning compared through probes. Whether BFloat16 contains Python's float is treated as unspecified. Regex user categories excluded from intersection."),
 "C20": dict(cat="model_checking", sec="5 C20",
   tech="TLA+ model JtPickle of the reducer (RoundTrip proved for effective-dtypes + by-reference sentinels; outer-category reducer and by-value sentinels refuted by TLC); every annotation built for real and sent through pickle (2 protocols), cloudpickle, copy, deepcopy, a reuse history, and pickle / cloudpickle into another process; TLC decides the acceptance vector of each reconstruction from the annotation's definition (Rows_JtDtypes)",
   text="Each reconstruction's acceptance vector over 45 (dtype, shape) probes must equal what TLC computes from the definition (intersection of the nested categories, dims incl. '_' / '...' / *v), must equal the original's, and the original's must be unchanged afterwards - in the same process and in a fresh interpreter.",
   note="Fixed by this work: D5 (nested dtypes lost), D15 (cloudpickle corrupted the original's sentinels). 250 nested pairs sampled in the quick tier."),
}
NOT_YET = {}

def main():
    props = [json.loads(l) for l in open(os.path.join(HERE, "properties.jsonl"))]
    checks = []
    for p in props:
        c = CHECKS.get(p["id"])
        if not c:
            continue
        checks.append({
            "property_id": p["id"],
            "quick_cmd": f"./check {p['id']} --tier quick",
            "thorough_cmd": f"./check {p['id']} --tier thorough",
            "evidence_file": f"/verif/evidence/{p['id']}.json",
            "replay_cmd_template": f"./check {p['id']} --replay {{path}}",
            "engine": "tlc",
            "level_claimed": {"category": c["cat"], "text": c["text"], "design_ref": "DESIGN.md section " + c["sec"]},
            "level_note": c["note"],
            "technique": c["tech"],
        })
    na = [{"property_id": p["id"], "reason": NOT_YET.get(p["id"], "check not built yet in this session (planned: DESIGN.md section 5 " + p["id"] + "); nothing is claimed")}
          for p in props if p["id"] not in CHECKS]
    m = {
        "version": 1,
        "setup_cmd": "./check --self-test",
        "hooks": {"guard": "JAXTYPING_VERIF", "enable": "no source hooks: instrumentation is applied from /verif/harness at run time when JAXTYPING_VERIF=1 (set by ./check); /repo is imported from its working tree via PYTHONPATH",
                  "baseline_off_cmd": BASE, "source_commits": [], "add_only": True},
        "engines": [{"name": "tlc", "path": "/verif/spec", "serves_properties": sorted(CHECKS),
                     "kind_free_text": "explicit TLA+ specification family checked with TLC 1.8; bound to the implementation by replaying TLC-enumerated rows/behaviours into the code and by validating recorded executions against the specification"}],
        "checks": checks,
        "not_applicable": na,
        "notes": "fix: commits in /repo (see known_findings.json): D1 90db414, D2 2bf5538, D3 cebd2d4, D4 9f1396f, D5 63c6bc7, D6 860ec5b, D7 ace73f0, D12 b286001, D13 9d06957, D15 79523f2, D10a c7e018f, D10b 3391679, D10c a225f7f, D16 2afe860. Known (unrepaired) findings: D8, D9, D14.",
    }
    json.dump(m, open(os.path.join(HERE, "MANIFEST.json"), "w"), indent=1)
    print("checks:", [c["property_id"] for c in checks], "not_applicable:", len(na))

if __name__ == "__main__":
    main()
