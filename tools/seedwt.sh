#!/bin/bash
# usage: tools/seedwt.sh <seed-id> <check IDs...>   - runs checks against seeded/<id>/patch.diff applied to a scratch worktree
# (VERIF_REPO), never touching /repo; evidence goes to evidence/.seed/<id> and is removed afterwards.
set -u
sid=$1; shift
V=$(cd "$(dirname "$0")/.." && pwd)
wt=/tmp/swt_$sid.$$
git -C /repo worktree add -q --detach $wt HEAD || exit 2
# (a seeded tree may write hook-tagged bytecode next to third-party modules: removed afterwards)
trap 'git -C /repo worktree remove --force '$wt'; rm -rf '$V'/evidence/.seed/'$sid'; find /venv /root/.pyenv -name "*opt-jaxtyping*.pyc" -delete 2>/dev/null' EXIT
git -C $wt apply $V/seeded/$sid/patch.diff || { echo "patch does not apply"; exit 2; }
for c in "$@"; do
  (cd $V && VERIF_REPO=$wt VERIF_EVID_SUFFIX=.seed/$sid ./check $c --tier ${TIER:-quick} 2>&1 | grep -v "^\.\.\. and" | tail -${TAIL:-3})
done
