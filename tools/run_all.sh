#!/bin/bash
# runs every registered check (default: quick tier; optional list of ids after the tier) on /repo's working tree; prints one line each
tier=${1:-quick}
cd "$(dirname "$0")/.."
shift
ids="$*"
[ -z "$ids" ] && ids=$(python3 -c "import json; print(' '.join(c['property_id'] for c in json.load(open('MANIFEST.json'))['checks']))")
for id in $ids; do
  s=$(date +%s); out=$(./check $id --tier $tier 2>&1); rc=$?
  echo "$id rc=$rc $(( $(date +%s) - s ))s | $(echo "$out" | grep -E "^C[0-9]+ (quick|thorough):" | tail -1)"
  echo "$out" | grep -E "^(VIOLATION|MACHINERY)" | head -3
done
