#!/usr/bin/env python3
"""Confirms every seeded change (from independent sub-agents, /tmp/seed/out/Cxx/{a,b}) against /repo's HEAD and
records it under /verif/seeded/<id>/: patch applies, demonstration passes without / fails with the change, the
repository's test-suite still has its 267 passes, and which of our checks catch it."""
import glob, json, os, shutil, subprocess, sys
from concurrent.futures import ThreadPoolExecutor

VERIF = os.path.dirname(os.path.dirname(os.path.abspath(__file__)))
PY = "/venv/bin/python"
EXTRA = json.load(open(os.path.join(VERIF, "tools", "seed_checks.json"))) if os.path.exists(os.path.join(VERIF, "tools", "seed_checks.json")) else {}


def sh(cmd, **kw):
    return subprocess.run(cmd, shell=isinstance(cmd, str), capture_output=True, text=True, **kw)


def one(src):
    prop = src.split("/")[-2]
    letter = src.split("/")[-1]
    if "/out2/" in src:          # second wave of independent seeds
        letter = {"a": "c", "b": "d"}[letter]
    if "/out3/" in src:          # third wave
        letter = {"a": "e", "b": "f"}[letter]
    if "/out4/" in src:          # fourth wave (the five properties not in the third)
        letter = {"a": "e", "b": "f"}[letter]
    if "/out7/" in src:          # seventh wave (all twenty)
        letter = {"a": "i", "b": "j"}[letter]
    if "/out6/" in src:          # sixth wave (the ten properties not in the fifth)
        letter = {"a": "g", "b": "h"}[letter]
    if "/out5/" in src:          # fifth wave
        letter = {"a": "g", "b": "h"}[letter]
    sid = f"{prop}{letter}"
    dst = os.path.join(VERIF, "seeded", sid)
    patch = os.path.join(dst if os.path.exists(os.path.join(dst, "patch.diff")) else src, "patch.diff")
    wt = f"/tmp/sw_{sid}"
    sh(f"git -C /repo worktree remove --force {wt}")
    sh(f"git -C /repo worktree add -q --detach {wt} HEAD")
    meta = {"id": sid, "breaks_property": prop, "source": "independent sub-agent given only the property text and a scratch worktree"}
    try:
        r = sh(f"git -C {wt} apply {patch}")
        if r.returncode != 0:
            meta["status"] = "patch does not apply to HEAD: " + r.stderr.strip()[:200]
            return meta
        env = dict(os.environ, PYTHONPATH=wt, JAX_PLATFORMS="cpu", TF_CPP_MIN_LOG_LEVEL="3")
        envc = dict(os.environ, PYTHONPATH="/repo", JAX_PLATFORMS="cpu", TF_CPP_MIN_LOG_LEVEL="3")
        demo = os.path.join(src, "demo.py")
        d0 = sh([PY, demo], env=envc, cwd="/tmp", timeout=900)
        d1 = sh([PY, demo], env=env, cwd="/tmp", timeout=900)
        meta["demo_without_change_rc"] = d0.returncode
        meta["demo_with_change_rc"] = d1.returncode
        t = sh(f"cd {wt} && PYTHONPATH={wt} {PY} -m pytest -q -p no:cacheprovider --timeout=900 --continue-on-collection-errors 2>&1 | tail -1",
               timeout=1800)
        meta["test_suite_with_change"] = t.stdout.strip()
        caught = {}
        for c in [prop] + EXTRA.get(sid, []):
            e = dict(os.environ, VERIF_REPO=wt, VERIF_EVID_SUFFIX=f".seed/{sid}")
            r = sh(f"cd {VERIF} && ./check {c} --tier quick 2>&1 | tail -1", env=e, timeout=3600)
            last = r.stdout.strip()
            rc = "violation" if "violations=0" not in last and "violations=" in last else ("clean" if "violations=0" in last else "error:" + last[-100:])
            caught[c] = {"verdict": rc, "summary": last}
        meta["checks"] = caught
        meta["confirmed"] = (d0.returncode == 0 and d1.returncode != 0 and "267 passed" in meta["test_suite_with_change"])
        meta["status"] = "ok"
        os.makedirs(dst, exist_ok=True)
        if not os.path.exists(os.path.join(dst, "patch.diff")):
            shutil.copy(patch, os.path.join(dst, "patch.diff"))
        shutil.copy(demo, os.path.join(dst, "demo.py"))
        notes = open(os.path.join(src, "notes.md")).read() if os.path.exists(os.path.join(src, "notes.md")) else ""
        meta["needs_to_manifest"] = notes[:1500]
        meta["what_was_run"] = ["git apply patch.diff on a scratch worktree of /repo HEAD", "demo.py with PYTHONPATH=/repo (expect 0) and PYTHONPATH=<worktree> (expect !=0)",
                                "repository test-suite in the worktree", "./check <ID> --tier quick with VERIF_REPO=<worktree>"]
        json.dump(meta, open(os.path.join(dst, "meta.json"), "w"), indent=1)
        return meta
    finally:
        sh(f"git -C /repo worktree remove --force {wt}")
        shutil.rmtree(os.path.join(VERIF, "evidence", ".seed", sid), ignore_errors=True)
        # a seeded tree may write hook-tagged bytecode next to third-party modules
        sh('find /venv /root/.pyenv -name "*opt-jaxtyping*.pyc" -delete 2>/dev/null')


if __name__ == "__main__":
    srcs = sorted(glob.glob("/tmp/seed/out/C*/[ab]")) + sorted(glob.glob("/tmp/seed/out2/C*/[ab]")) + sorted(glob.glob("/tmp/seed/out3/C*/[ab]")) + sorted(glob.glob("/tmp/seed/out4/C*/[ab]")) + sorted(glob.glob("/tmp/seed/out5/C*/[ab]")) + sorted(glob.glob("/tmp/seed/out6/C*/[ab]")) + sorted(glob.glob("/tmp/seed/out7/C*/[ab]"))
    if len(sys.argv) > 1:
        srcs = [s for s in srcs if any(a in s for a in sys.argv[1:])]
    with ThreadPoolExecutor(max_workers=3) as ex:
        for m in ex.map(one, srcs):
            print(m["id"], m.get("status"), "confirmed=" + str(m.get("confirmed")), {k: v["verdict"] for k, v in m.get("checks", {}).items()}, flush=True)
