#!/bin/bash
# robustness: every quick check under several seeds (no alarm may appear on the unchanged tree)
cd "$(dirname "$0")/.."
for s in ${@:-2 3 5}; do echo "=== VERIF_SEED=$s"; VERIF_SEED=$s tools/run_all.sh quick; done
