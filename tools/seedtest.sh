#!/bin/bash
# usage: tools/seedtest.sh <patch.diff> <ID> [<ID>...]   -- apply a seeded change to /repo, run quick checks, undo
patch=$1; shift
cd /repo || exit 2
if [ -n "$(git status --porcelain --untracked-files=no)" ]; then echo "/repo not clean"; exit 2; fi
git apply --check "$patch" 2>/dev/null && git apply "$patch" || { echo "patch does not apply"; exit 2; }
trap 'git -C /repo checkout -- . ' EXIT
cd /verif
for id in "$@"; do
  out=$(VERIF_EVID_SUFFIX=.seed ./check $id --tier ${TIER:-quick} 2>&1); rc=$?
  echo "== $id rc=$rc: $(echo "$out" | grep -c '^VIOLATION') violation lines; $(echo "$out" | tail -1)"
  echo "$out" | grep -E "^VIOLATION|KNOWN|MACHINERY" | head -3
done
